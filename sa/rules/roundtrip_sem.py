"""RT-sem: the FuzzyLite Language round trip interpreted on model engines (C14).

`FllExporter.engine`, every `parameters()` it calls, `FllImporter.from_string`, every `configure()` and property setter it hands values to, and
the constructors of all component classes are interpreted together by sa/objexec.py on *model engines*: engines built by interpreting the real
constructors, whose floating-point fields are symbols (`⟦x⟧` in the text), whose flags run through both values, whose optional components are
present or `None`, and which contain every term / activation / defuzzifier / norm class of the package once.

Decided, for every model engine E (property statement, first two sentences):

  fixed-point   export(import(export(E))) == export(E)                                        (text)
  structure     import(export(E)) has the same structure as E: every component is of the same class and every persistent field holds the
                same value (the same symbol, flag, name, text), compared field by field over the model objects
  no-internal-error   the round trip of a well-formed engine does not fail

A symbol printed with the library's number format (fixed point, `settings.decimals` read at call time) reads back as itself; printed any other
way it reads back as a different number, which the structure comparison reports (representability at the configured decimals is the property's
own precondition). Heights and weights are 1 or a symbol (generic: further from 1 than the tolerance).

What is not decided here: rules are compared as texts (loading is C06 / C16), formulas of Function terms are carried as text, Discrete / Linear
terms with a symbolic number of values are represented by instances with two pairs / three coefficients.
"""

from __future__ import annotations

import ast
from typing import Any

from ..absexec import App, Internal, Logger, MObj, Opaque, Raised, Sym, Unknown
from ..objexec import Arr, ClassV, Decimals, ObjExec, read_placeholder
from ..pm import AnalysisError, ClassInfo, Program
from ..report import Check
from .common import loc

E0 = ast.parse("0").body[0]
NAN = float("nan")


class Counter:
    """Fresh numbers for the model engines: symbols, or - `numeric` - distinct multiples of 1/8 (exactly representable at three decimals, none of them
    within the comparison tolerance of 1), so that code which *computes* with a height or a weight (compares it, tests it) is interpreted on numbers."""

    def __init__(self) -> None:
        self.n = 0
        self.numeric = False

    def sym(self, hint: str = "x") -> Any:
        self.n += 1
        if self.numeric:
            if self.n % 8 == 0:
                self.n += 1
            return self.n / 8.0
        return Sym(f"{hint}{self.n}")


def new_exec(p: Program) -> ObjExec:
    ex = ObjExec(p, "round trip")

    def number(ex_: Any, e: Any, args: list, kw: dict) -> Any:
        return ex_.to_number(args[0], e)

    settings = MObj("<settings>", {"decimals": ex.decimals, "float_type": number, "atol": 1e-3, "rtol": 0.0, "alias": "fl", "logger": Logger(), "debugging": False,
                                   "factory_manager": MObj("<manager>", {k: MObj("<factory>", {"base": b}) for k, b in
                                                                         (("term", "Term"), ("tnorm", "TNorm"), ("snorm", "SNorm"), ("activation", "Activation"),
                                                                          ("defuzzifier", "Defuzzifier"), ("hedge", "Hedge"))})})
    ex.globals.update({"settings": settings, "nan": NAN, "inf": float("inf"), "np": Opaque("np"), "inspect": Opaque("inspect"), "math": Opaque("math"), "re": Opaque("re")})
    ex.globals["scalar"] = ex.globals["array"] = lambda ex_, e, args, kw: ex_.to_array(args[0], e)  # numbers stay numbers, sequences become arrays
    ex.func_hooks["ext:np.atleast_2d"] = lambda ex_, e, args, kw: args[0] if isinstance(args[0], Arr) and args[0].ndim == 2 else Arr([list(args[0].data)], 2) \
        if isinstance(args[0], Arr) else Arr([[args[0]]], 2)
    ex.func_hooks["ext:np.array"] = ex.func_hooks["ext:np.asarray"] = lambda ex_, e, args, kw: ex_.to_array(args[0], e)
    ex.func_hooks["ext:np.atleast_1d"] = lambda ex_, e, args, kw: (Arr([args[0].data], 1) if args[0].ndim == 0 else args[0]) if isinstance(args[0], Arr) else Arr([args[0]], 1)

    def is_close(ex_: Any, e: Any, args: list, kw: dict) -> bool:
        a, b = args[0], args[1]
        if isinstance(a, (Sym, App)) or isinstance(b, (Sym, App)):
            return a == b  # a generic number is close to itself only
        if a != a or b != b:
            return a != a and b != b
        return abs(a - b) <= 1e-3

    ex.func_hooks["Operation.is_close"] = is_close

    def isnan(ex_: Any, e: Any, args: list, kw: dict) -> bool:
        v = args[0]
        return (not isinstance(v, (Sym, App))) and isinstance(v, float) and v != v

    ex.func_hooks["ext:np.isnan"] = isnan
    ex.func_hooks["ext:math.isnan"] = isnan
    ex.func_hooks["Operation.isnan"] = isnan
    ex.func_hooks["ext:np.isinf"] = lambda ex_, e, args, kw: (not isinstance(args[0], (Sym, App))) and args[0] in (float("inf"), float("-inf"))
    ex.func_hooks["ext:inspect.isclass"] = lambda ex_, e, args, kw: isinstance(args[0], ClassV)
    # loading a rule / a formula is the subject of other rules (LD, PD): here the texts are carried
    def rule_load(ex_: Any, e: Any, args: list, kw: dict) -> None:
        if args and isinstance(args[0], MObj):
            args[0].fields["<loaded-with>"] = args[1] if len(args) > 1 else kw.get("engine")

    ex.func_hooks["Rule.load"] = rule_load
    ex.func_hooks["Function.load"] = lambda ex_, e, args, kw: None
    ex.func_hooks["RuleBlock.load_rules"] = lambda ex_, e, args, kw: None

    def registered(ex_: Any, fac: MObj) -> dict[str, ClassInfo]:
        """What the factory of the library registers: every concrete class of its module under its class name; hedges under the name they answer to."""
        memo = fac.fields.get("<registered>")
        if memo is None:
            base = fac.fields["base"]
            memo = {}
            for c in p.subclasses(base, concrete_only=True):
                if c.outer is not None or c.name.startswith("_") or c.module.name != p.cls(base).module.name:
                    continue
                if base == "Hedge":
                    if ctor_params(c):
                        continue  # HedgeLambda / HedgeFunction: built by the user, not registered
                    memo[ex_.attr(ex_.instantiate(c, [], {}, E0), "name", E0)] = c
                else:
                    memo[c.name] = c
            fac.fields["<registered>"] = memo
        return memo

    def construct(ex_: Any, e: Any, recv: Any, args: list, kw: dict) -> Any:
        if not (isinstance(recv, MObj) and recv.cls == "<factory>"):
            raise Unknown("construct() on something that is not a factory")
        key = args[0] if args else kw.get("key")
        rest = {k: v for k, v in kw.items() if k != "key"}
        c = registered(ex_, recv).get(key) if isinstance(key, str) else None
        if c is None:
            raise Raised("ValueError", e)
        return ex_.instantiate(c, list(args[1:]), rest, e)

    ex.factory_contains = lambda fac, key: isinstance(key, str) and key in registered(ex, fac)
    ex.hooks["method:construct"] = construct
    return ex


# ---------------------------------------------------------------------------------------------- model engines
def ctor_params(c: ClassInfo) -> list[tuple[str, str, ast.AST | None]]:
    init = c.lookup("__init__")
    if init is None:
        return []
    out = []
    a = init.node.args
    pos = a.posonlyargs + a.args
    defaults = [None] * (len(pos) - len(a.defaults)) + list(a.defaults)
    for x, d in list(zip(pos, defaults))[1:]:
        out.append((x.arg, ast.unparse(x.annotation) if x.annotation is not None else "", d))
    for x, d in zip(a.kwonlyargs, a.kw_defaults):
        out.append((x.arg, ast.unparse(x.annotation) if x.annotation is not None else "", d))
    return out


def make_component(ex: ObjExec, c: ClassInfo, cnt: Counter, *, name: str | None = None, height: Any = None, variant: int = 0) -> MObj | None:
    """An instance of a term / activation / defuzzifier class with generic arguments: floats are fresh symbols, integers are small distinct numbers,
    enumerations run through their members with `variant`."""
    kw: dict[str, Any] = {}
    for pname, ann, default in ctor_params(c):
        ann_ = ann.replace(" ", "")
        if pname == "name":
            if name is not None:
                kw[pname] = name
        elif pname == "height":
            if height is not None:
                kw[pname] = height
        elif pname in ("engine", "load"):
            continue
        elif pname == "variables" and c.name == "Function":
            # substitution variables of a formula: a Python matter (the FuzzyLite Language has no place for them), in every other Function term
            if getattr(ex, "function_variables", False) and height is not None:
                kw[pname] = {"gain": cnt.sym("g"), "offset": cnt.sym("o")}
        elif ann_ in ("float", "Scalar", "float|None", "Scalar|float"):
            kw[pname] = cnt.sym(pname[:3])
        elif ann_ in ("int", "int|None"):
            if variant % 2 == 1 and default is not None:
                continue  # the default value
            kw[pname] = 7 + (cnt.n % 5)
            cnt.n += 1
        elif ann_ in ("str",):
            if pname == "formula":
                kw[pname] = "a + 1"
            else:
                kw[pname] = f"{pname}_text"
        elif "Sequence[float]" in ann_ or "list[float]" in ann_ or pname == "coefficients":
            kw[pname] = [cnt.sym("c"), cnt.sym("c"), cnt.sym("c")]
        elif pname == "values" and c.name == "Discrete":
            return None  # built separately
        else:
            # an enumeration of the package (possibly `E | str`) -> one of its members
            target = None
            for part in ann_.replace("|", ",").replace("[", ",").replace("]", ",").split(","):
                q = part.strip().strip("'\"")
                k = ex.p.classes.get(q) or next((cl for cl in ex.p.classes.values() if cl.qualname.endswith("." + q) or cl.name == q), None)
                if k is not None and k.is_enum:
                    target = k
                    break
            if target is not None:
                ms = ex.members(target)
                kw[pname] = ms[variant % len(ms)]
            elif default is not None:
                continue
            else:
                return None
    return ex.instantiate(c, [], kw, E0)


def concrete(p: Program, base: str) -> list[ClassInfo]:
    return [c for c in p.subclasses(base, concrete_only=True) if c.outer is None and not c.name.startswith("_")]


SKIP_TERMS = {"Activated", "Aggregated"}


def model_engines(ex: ObjExec, cnt: Counter) -> list[tuple[str, MObj]]:
    p = ex.p

    def C(cname: str, *a: Any, **k: Any) -> MObj:
        return ex.instantiate(p.cls(cname), list(a), k, E0)

    out: list[tuple[str, MObj]] = []
    tnorms = concrete(p, "TNorm")
    snorms = concrete(p, "SNorm")
    tnorms = [c for c in tnorms if not ctor_params(c)]
    snorms = [c for c in snorms if not ctor_params(c)]
    terms = [c for c in concrete(p, "Term") if c.name not in SKIP_TERMS]
    acts = concrete(p, "Activation")
    defs = concrete(p, "Defuzzifier")

    def all_terms(height: Any, prefix: str) -> list[MObj]:
        res = []
        for c in terms:
            h = height() if callable(height) else height
            t = make_component(ex, c, cnt, name=f"{prefix}{c.name}", height=h)
            if t is None and c.name == "Discrete":
                t = ex.instantiate(c, [], {"name": f"{prefix}{c.name}", "values": [float("-inf"), cnt.sym("y"), cnt.sym("x"), cnt.sym("y"), float("inf"), cnt.sym("y")], **({"height": h} if h is not None else {})}, E0)
            if t is None:
                raise AnalysisError(f"RT-sem: no model instance for the term class {c.name}")
            res.append(t)
        return res

    for flags, numeric in ((0, False), (1, False), (1, True)):
        cnt.numeric = numeric
        T, F = bool(flags), not bool(flags)
        # every flag, optional operator and elidable field in both states; every term class with default and with generic height
        ivs = [C("InputVariable", name="A", description="first input: the one with every term" if T else "", enabled=T, minimum=cnt.sym("lo"), maximum=cnt.sym("hi"), lock_range=F,
                 terms=all_terms(None if T else (lambda: cnt.sym("h")), "a") + [C("Triangle", "élevée_2", cnt.sym("a"), cnt.sym("b"), cnt.sym("c"))]),  # a name beyond ASCII
               C("InputVariable", name="B", description="" if T else "second input", enabled=F, minimum=float("-inf"), maximum=float("inf"), lock_range=T, terms=[])]
        ovs = []
        for j, dc in enumerate(defs):
            d = make_component(ex, dc, cnt, variant=flags + j)
            ovs.append(C("OutputVariable", name=f"O{j}", description=f"output {j}" if (j + flags) % 2 else "", enabled=bool((j + flags) % 2), minimum=cnt.sym("lo"),
                         maximum=cnt.sym("hi"), lock_range=bool((j + flags + 1) % 2), lock_previous=bool((j // 2 + flags) % 2),
                         default_value=cnt.sym("def") if (j + flags) % 2 else NAN,
                         aggregation=ex.instantiate(snorms[(j + flags) % len(snorms)], [], {}, E0) if (j + flags) % 3 else None, defuzzifier=d,
                         terms=all_terms(1.0, f"o{j}") if j == 0 else  # the height 1.0 given explicitly (not through the default)
                          [make_component(ex, terms[(j + flags) % len(terms)], cnt, name="t", height=cnt.sym("h")) or
                                                                       C("Constant", name="t", value=cnt.sym("k"))]))
        ovs.append(C("OutputVariable", name="Onone", description="", enabled=T, minimum=cnt.sym("lo"), maximum=cnt.sym("hi"), lock_range=F, lock_previous=T,
                     default_value=cnt.sym("def"), aggregation=None, defuzzifier=None, terms=[C("Constant", name="k", value=cnt.sym("k"))]))
        rbs = []
        for j, ac in enumerate(acts):
            for variant in range(6 if any("Comparator" in ann for _, ann, _ in ctor_params(ac)) else 2):
                a = make_component(ex, ac, cnt, variant=variant)
                rules = [C("Rule", enabled=bool((j + variant + flags) % 3), weight=1.0 if (j + variant) % 2 else cnt.sym("w"), antecedent=C("Antecedent", text="A is aTriangle"),
                           consequent=C("Consequent", text="O0 is o0Triangle")),
                         C("Rule", enabled=True, weight=cnt.sym("w") if (j + variant) % 2 else 1.0, antecedent=C("Antecedent", text="A is aTriangle or B is any"),
                           consequent=C("Consequent", text="O0 is o0Triangle and O1 is very t"))]
                k = j + variant + flags
                rbs.append(C("RuleBlock", name=f"R{j}_{variant}", description=f"block {j}" if k % 2 else "", enabled=bool(k % 2),
                             conjunction=ex.instantiate(tnorms[k % len(tnorms)], [], {}, E0) if k % 4 else None,
                             disjunction=ex.instantiate(snorms[k % len(snorms)], [], {}, E0) if (k + 1) % 4 else None,
                             implication=ex.instantiate(tnorms[(k + 2) % len(tnorms)], [], {}, E0) if (k + 2) % 4 else None,
                             activation=a, rules=rules if (k + 1) % 3 else []))
        rbs.append(C("RuleBlock", name="Rnone", description="", enabled=T, conjunction=None, disjunction=None, implication=None, activation=None, rules=[]))
        eng = C("Engine", name=f"model{flags}", description="a model engine: every component class once" if T else "", input_variables=ivs, output_variables=ovs, rule_blocks=rbs, load=False)
        out.append((f"model engine {flags}{' (numbers)' if numeric else ''}", eng))
    cnt.numeric = False
    # every norm class once in every slot
    rbs = []
    for j in range(max(len(tnorms), len(snorms))):
        rbs.append(C("RuleBlock", name=f"N{j}", conjunction=ex.instantiate(tnorms[j % len(tnorms)], [], {}, E0), disjunction=ex.instantiate(snorms[j % len(snorms)], [], {}, E0),
                     implication=ex.instantiate(tnorms[(j + 1) % len(tnorms)], [], {}, E0), activation=C("General"), rules=[]))
    ovs = [C("OutputVariable", name=f"S{j}", minimum=cnt.sym("lo"), maximum=cnt.sym("hi"), aggregation=ex.instantiate(s, [], {}, E0), defuzzifier=None, terms=[]) for j, s in enumerate(snorms)]
    out.append(("model engine of norms", C("Engine", name="norms", input_variables=[], output_variables=ovs, rule_blocks=rbs, load=False)))
    out.append(("empty engine", C("Engine", name="empty", load=False)))
    return out


LOADED_RULES = ["if (A is a or B is very a) and A is not b then O is k with 0.5",
                "if A is a and (B is a or A is b) then O is very k and P is not seldom k",
                "if A is a or B is a and A is b then P is k",
                "if (A is somewhat a) then O is k"]


def loaded_engine(ex: ObjExec, cnt: Counter) -> MObj:
    """An engine whose rules are really loaded (`Rule.load` interpreted, with the library's function factory built by its own constructor): antecedents
    with parentheses that change the meaning, hedges, both connectives. What is written for such an engine must be what is written before loading."""
    p = ex.p

    def C(cname: str, *a: Any, **k: Any) -> MObj:
        return ex.instantiate(p.cls(cname), list(a), k, E0)

    manager = ex.globals["settings"].fields["factory_manager"]
    if "function" not in manager.fields and "FunctionFactory" in p.classes:
        manager.fields["function"] = C("FunctionFactory")
    tri = lambda nm: C("Triangle", nm, cnt.sym("a"), cnt.sym("b"), cnt.sym("c"))  # noqa: E731
    ivs = [C("InputVariable", name="A", minimum=cnt.sym("lo"), maximum=cnt.sym("hi"), terms=[tri("a"), tri("b")]),
           C("InputVariable", name="B", minimum=cnt.sym("lo"), maximum=cnt.sym("hi"), terms=[tri("a")])]
    ovs = [C("OutputVariable", name=n, minimum=cnt.sym("lo"), maximum=cnt.sym("hi"), defuzzifier=C("WeightedAverage"), terms=[C("Constant", "k", cnt.sym("k"))]) for n in ("O", "P")]
    create = p.func("Rule.create")
    hooked = {k: ex.func_hooks.pop(k) for k in ("Rule.load", "RuleBlock.load_rules") if k in ex.func_hooks}
    try:
        rules = []
        for text in LOADED_RULES:
            r = C("Rule")
            ex.store_attr(r, "text", text, E0)
            rules.append(r)
        eng = C("Engine", name="loaded", input_variables=ivs, output_variables=ovs,
                rule_blocks=[C("RuleBlock", name="rb", conjunction=C("Minimum"), disjunction=C("Maximum"), implication=C("Minimum"), activation=C("General"), rules=rules)], load=False)
        for r in rules:
            ex.invoke(p.func("Rule.load"), [r, eng], {}, E0)
            loaded = ex.invoke(p.func("Rule.is_loaded"), [r], {}, E0)
            if loaded is not True:
                raise Unknown("a rule of the model engine is not loaded after Rule.load")
    finally:
        ex.func_hooks.update(hooked)
    del create
    return eng


NON_CANONICAL = [
    ("a text with comments, blank lines and keys in another order", """# a controller
Engine: dimmer   # the name

  description: written by hand
InputVariable: Ambient
    range: 0.000 1.000
    enabled: true
    lock-range: false
    term: DARK Ramp 0.500 0.000   # falling
    term: BRIGHT Ramp 0.500 1.000

OutputVariable: Power
  lock-previous: true
  default: nan
  range: 0.000 2.000
  enabled: true
  lock-range: true
  defuzzifier: Centroid 200
  aggregation: Maximum
  term: LOW Triangle 0.000 0.500 1.000 0.500
  term: HIGH Triangle 1.000 1.500 2.000
RuleBlock: rules
  activation: General
  implication: Minimum
  disjunction: none
  conjunction: none
  enabled: true
  rule: if Ambient is DARK then Power is HIGH
  rule: if Ambient is BRIGHT then Power is LOW with 0.500
"""),
    ("a text with components interleaved and optional lines left out", """Engine: mixed
OutputVariable: O
  defuzzifier: WeightedAverage
  term: k Constant 1.500
RuleBlock: first
  rule: if A is any then O is k
InputVariable: A
  term: t Rectangle -inf inf
RuleBlock: second
  activation: Threshold >= 0.250
  conjunction: AlgebraicProduct
"""),
    ("a text with extra spaces and a weighted defuzzifier type", """Engine:   spaced
InputVariable:   X
  range:   -1.000    1.000
  term:   z   ZShape   -1.000   1.000   0.750
OutputVariable:   Y
  defuzzifier:   WeightedSum   TakagiSugeno
  default:   0.000
  term:   lin   Linear   1.000   2.000
RuleBlock:
  rule:   if   X   is   very   z   then   Y   is   lin
"""),
    ("a text whose numbers have more digits than the setting prints, small negative ones (which print as a negative zero) among them", """Engine: digits
InputVariable: error
  range: -1.00049 1.0000001
  term: zero Triangle -0.5 -0.0004 0.5
  term: minus Ramp -0.0 -1
OutputVariable: correction
  range: -1e0 1
  defuzzifier: WeightedAverage
  default: -0.0001
  term: hold Constant -0.0003
  term: up Constant 0.99996
RuleBlock: rb
  rule: if error is zero then correction is hold with 0.12345
"""),
]


# ---------------------------------------------------------------------------------------------- comparison
RUNTIME_FIELDS = {"__bases__", "<loaded-with>", "_value", "previous_value", "fuzzy", "activation_degree", "triggered", "engine", "_engine", "root", "expression", "conclusions", "variables"}


def differences(a: Any, b: Any, path: str, out: list[str], seen: set[tuple[int, int]], limit: int = 12) -> None:
    if len(out) >= limit:
        return
    if isinstance(a, MObj) and isinstance(b, MObj):
        if (id(a), id(b)) in seen:
            return
        seen.add((id(a), id(b)))
        if a.cls != b.cls:
            out.append(f"{path}: a {a.cls} comes back as a {b.cls}")
            return
        if a.fields.get("__enum__"):
            if a is not b:
                out.append(f"{path}: {a.cls}.{a.fields['name']} comes back as {b.fields['name']}")
            return
        for k in sorted(set(a.fields) | set(b.fields)):
            if k in RUNTIME_FIELDS:
                continue
            if k not in a.fields or k not in b.fields:
                out.append(f"{path}.{k}: the field exists on one side only")
                continue
            n0 = len(out)
            differences(a.fields[k], b.fields[k], f"{path}.{k}" if path else k, out, seen, limit)
            for i_ in range(n0, len(out)):
                if not out[i_].startswith("<"):
                    out[i_] = f"<{a.cls.split('.')[-1]}.{k.lstrip('_')}> " + out[i_]  # the class and field that does not come back
        return
    if isinstance(a, (list, tuple)) and isinstance(b, (list, tuple)):
        if len(a) != len(b):
            out.append(f"{path}: {len(a)} elements come back as {len(b)}")
            return
        for i, (x, y) in enumerate(zip(a, b)):
            label = x.fields.get("name") if isinstance(x, MObj) and isinstance(x.fields.get("name"), str) and x.fields.get("name") else i
            differences(x, y, f"{path}[{label}]", out, seen, limit)
        return
    if isinstance(a, Arr) or isinstance(b, Arr):
        if not (isinstance(a, Arr) and isinstance(b, Arr)) or a.shape != b.shape:
            out.append(f"{path}: an array of shape {getattr(a, 'shape', '?')} comes back as {getattr(b, 'shape', type(b).__name__)}")
            return
        for i, (x, y) in enumerate(zip(a.flat(), b.flat())):
            differences(x, y, f"{path}[{i}]", out, seen, limit)
        return
    if isinstance(a, float) and isinstance(b, float):
        if not (a == b or (a != a and b != b)):
            out.append(f"{path}: {a!r} comes back as {b!r}")
        return
    if type(a) is not type(b) and not (isinstance(a, (int, float)) and isinstance(b, (int, float)) and not isinstance(a, bool) and not isinstance(b, bool) and a == b):
        out.append(f"{path}: {show(a)} comes back as {show(b)}")
        return
    if a != b:
        out.append(f"{path}: {show(a)} comes back as {show(b)}")


def show(v: Any) -> str:
    if isinstance(v, Sym):
        if "~" in v.name:
            name, how = v.name.split("~", 1)
            return f"the number {name} printed as {how.replace('~', ', then ')} and read back"
        return f"the number {v.name}"
    if isinstance(v, App):
        return f"{v.fn}(...)"
    if isinstance(v, MObj):
        return f"a {v.cls}"
    return repr(v)


def field_key(diff: str) -> str:
    """`<Triangle.top> input_variables[A].terms[aTriangle].top: ...` -> `Triangle.top`; without a class tag the path without its indices."""
    import re
    m = re.match(r"<([^>]+)> ", diff)
    if m:
        return m.group(1)
    head = diff.split(":", 1)[0]
    return re.sub(r"\[[^\]]*\]", "", head)


def roundtrip(check: Check, rule: str = "RT-sem") -> bool:
    """-> True when every model engine and every model text was decided (nothing outside the interpreter's model)."""
    p = check.program
    exp_c, imp_c = p.cls("FllExporter"), p.cls("FllImporter")
    exp_engine, imp_from = exp_c.lookup("engine"), imp_c.lookup("from_string")
    if exp_engine is None or imp_from is None:
        raise AnalysisError("anchor vanished: FllExporter.engine / FllImporter.from_string")
    check.analysed(exp_engine)
    check.analysed(imp_from)
    from .pyroundtrip_sem import py_exec

    ex = py_exec(p, "fl")  # with the representation modelled as well: code shared between the two writers (Op.class_name) may ask it for the package prefix
    ex.qual = "round trip"
    ex.function_variables = False
    cnt = Counter()
    try:
        engines = model_engines(ex, cnt)
    except (Unknown, Raised, Internal) as err:
        raise AnalysisError(f"{rule}: the model engines cannot be built by interpreting the constructors: {getattr(err, 'cls', '')} {getattr(err, 'why', err)}") from None
    bad: dict[str, tuple[str, Any]] = {}
    cases = 0
    fields_compared = 0
    undecided: list[str] = []
    try:
        engines.append(("engine with loaded rules", loaded_engine(ex, cnt)))
    except (Unknown, Raised, Internal) as err:
        cases += 1
        undecided.append(f"engine with loaded rules: loading its rules is outside the interpreter's model ({getattr(err, 'cls', '')}{getattr(err, 'why', err)})")
    runs = [(label, eng, {}) for label, eng in engines]
    runs.append((engines[1][0] + ", lines separated by ';'", engines[1][1], {"separator": ";"}))  # the separator both classes take as an argument
    for label, eng, options in runs:
        cases += 1
        try:
            exporter = ex.instantiate(exp_c, [], dict(options), E0)
            importer = ex.instantiate(imp_c, [], dict(options), E0)
            text = ex.invoke(exp_engine, [exporter, eng], {}, E0)
            if not isinstance(text, str):
                raise Unknown("the exporter does not return a string")
            back = ex.invoke(imp_from, [importer, text], {}, E0)
            text2 = ex.invoke(exp_engine, [exporter, back], {}, E0)
        except (Raised, Internal) as err:
            bad.setdefault("no-internal-error", (f"{label}: the round trip export -> import -> export fails with {err.cls}"
                                                 f"{(' (' + err.why + ')') if isinstance(err, Internal) else ''}", getattr(err, "node", None)))
            continue
        except Unknown as err:
            undecided.append(f"{label}: {err}")
            continue
        diffs: list[str] = []
        differences(eng, back, "", diffs, set(), limit=40)
        fields_compared += count_fields(eng, set())
        for d in diffs:
            import re
            bad.setdefault("structure:" + field_key(d), (f"{label}: after export and import, {re.sub(r'^<[^>]+> ', '', d)}", None))
        # terms that hold a reference to their engine (Linear, Function) must hold the re-imported engine itself
        for coll in ("input_variables", "output_variables"):
            for var in back.fields.get(coll, []) if isinstance(back, MObj) else []:
                for t in var.fields.get("terms", []) if isinstance(var, MObj) else []:
                    for fld in ("engine", "_engine"):
                        if isinstance(t, MObj) and fld in t.fields and t.fields[fld] is not back:
                            bad.setdefault("engine-references", (f"{label}: after the import the {t.cls} term `{t.fields.get('name')}` of the {coll[:-1].replace('_', ' ')} "
                                                                 f"`{var.fields.get('name')}` refers to {'no engine' if t.fields[fld] is None else 'another object'}, not to the imported engine", None))
        for rb in back.fields.get("rule_blocks", []) if isinstance(back, MObj) else []:
            for rl in rb.fields.get("rules", []) if isinstance(rb, MObj) else []:
                if isinstance(rl, MObj) and rl.fields.get("<loaded-with>") is not back:
                    bad.setdefault("engine-references", (f"{label}: the rules of the imported rule block `{rb.fields.get('name')}` are "
                                                         f"{'not loaded' if '<loaded-with>' not in rl.fields else 'loaded without the imported engine'}", None))
        if text != text2:
            la, lb = text.split("\n"), text2.split("\n")
            i = next((k for k, (x, y) in enumerate(zip(la, lb)) if x != y), min(len(la), len(lb)))
            bad.setdefault("fixed-point", (f"{label}: exporting the re-imported engine gives a different text; first difference in line {i + 1}: "
                                           f"`{(la[i] if i < len(la) else '<end>').strip()}` becomes `{(lb[i] if i < len(lb) else '<end>').strip()}`", None))
    # "any text the importer accepts is normalised by one import / export cycle to a fixed point": texts that are not what the exporter writes -
    # comments, blank lines, other indentation, keys in another order, components interleaved, defaults spelled out or left out
    for label, doc in NON_CANONICAL:
        cases += 1
        try:
            exporter = ex.instantiate(exp_c, [], {}, E0)
            importer = ex.instantiate(imp_c, [], {}, E0)
            e1 = ex.invoke(imp_from, [importer, doc], {}, E0)
            t1 = ex.invoke(exp_engine, [exporter, e1], {}, E0)
            e2 = ex.invoke(imp_from, [importer, t1], {}, E0)
            t2 = ex.invoke(exp_engine, [exporter, e2], {}, E0)
        except (Raised, Internal) as err:
            bad.setdefault("normalises", (f"{label}: importing / exporting the text fails with {err.cls}{(' (' + err.why + ')') if isinstance(err, Internal) else ''}",
                                          getattr(err, "node", None)))
            continue
        except Unknown as err:
            undecided.append(f"{label}: {err}")
            continue
        if t1 != t2:
            la, lb = t1.split("\n"), t2.split("\n")
            i = next((k for k, (x, y) in enumerate(zip(la, lb)) if x != y), min(len(la), len(lb)))
            bad.setdefault("normalises", (f"{label}: one import / export cycle does not reach a fixed point; line {i + 1} `{(la[i] if i < len(la) else '<end>').strip()}` becomes "
                                          f"`{(lb[i] if i < len(lb) else '<end>').strip()}` in the next cycle", None))
        diffs = []
        if "more digits" not in label:  # numbers the setting cannot represent are rounded by the cycle: there only the text is compared
            differences(e1, e2, "", diffs, set(), limit=10)
        for d in diffs:
            import re
            bad.setdefault("normalises", (f"{label}: the engine imported from the normalised text differs from the one imported from the original: {re.sub(r'^<[^>]+> ', '', d)}", None))
    if len(undecided) == cases:
        raise AnalysisError(f"{rule}: no model engine could be taken through the round trip: {undecided[0]}")
    for u in undecided:
        check.notes.append(f"{rule}: undecided (outside the interpreter's model): {u}")
    construct = "FllExporter.engine~FllImporter.from_string"
    keys = sorted(bad)
    structure_keys = [k for k in keys if k.startswith("structure:")]
    for k in structure_keys:
        fld = k.split(":", 1)[1]
        # a field that does not survive the round trip is the clause T10 (field coverage) decided on the model engines: same key as the table rule
        if not any(o.status == "violation" and o.key == f"T10/{fld}" for o in check.obligations):
            check.violation("T10", fld, bad[k][0] + " (found by interpreting the round trip, RT-sem)", loc(imp_from), {"field": fld})
    check.require(not structure_keys, rule, f"{construct}/structure", f"every persistent field of every component of the {cases} model engines comes back with its value "
                  f"({fields_compared} fields compared)" if not structure_keys else f"{len(structure_keys)} fields do not come back (reported separately)", loc(imp_from), {}, exhaustive=True, cases=cases) \
        if not structure_keys else None
    for aspect in ("fixed-point", "no-internal-error", "engine-references", "normalises"):
        ok = aspect not in bad
        check.require(ok, rule, f"{construct}/{aspect}", {"fixed-point": "export(import(export(E))) == export(E) for every model engine",
                                                           "no-internal-error": "the round trip of every model engine completes",
                                                           "engine-references": "every imported term that refers to its engine refers to the imported engine",
                                                           "normalises": f"texts the exporter would not write ({len(NON_CANONICAL)} documents) are normalised by one import / export cycle"}[aspect] if ok else bad[aspect][0],
                      loc(exp_engine), {}, exhaustive=True, cases=cases)
    check.notes.append(f"{rule}: {cases} model engines, {cnt.n} symbolic numbers, {fields_compared} fields compared")
    return not undecided


def count_fields(v: Any, seen: set[int]) -> int:
    if isinstance(v, MObj):
        if id(v) in seen or v.fields.get("__enum__"):
            return 0
        seen.add(id(v))
        return sum(1 + count_fields(x, seen) for k, x in v.fields.items() if k not in RUNTIME_FIELDS)
    if isinstance(v, (list, tuple)):
        return sum(count_fields(x, seen) for x in v)
    return 0


__all__ = ["roundtrip", "new_exec", "model_engines", "differences", "Counter", "read_placeholder", "Decimals"]
