"""W-sem: `WeightedAverage.defuzzify` and `WeightedSum.defuzzify` interpreted on model fuzzy outputs (C10).

The methods are interpreted by sa/absexec.py on an `Aggregated` model with 0-3 groups of activations; the degree of group i is the symbol
w_i, the value of its term is the uninterpreted `membership(t_i, w)` / `tsukamoto(t_i, w)`, numpy is uninterpreted. What the method returns is
a symbolic expression; it is then evaluated, for every choice of which degrees are zero, to a rational-function normal form (sa/algebra.py)
over the w_i and the values - `np.where(w == 0, a, b)` picks its branch, a zero divisor is NaN - and compared with the statement:

    WeightedAverage  sum over the groups with w_i != 0 of w_i * z_i, divided by the sum of those w_i
    WeightedSum      sum over the groups with w_i != 0 of w_i * z_i
    NaN exactly when there is no activation or every weight is zero; z_i is the term's tsukamoto at w_i for the Tsukamoto kind and its
    membership at w_i otherwise; the kind is the one fixed on the defuzzifier, or the inferred one when it is Automatic; the degrees are
    those of the *grouped* activations (the model's first group is made of two raw activations with degrees of their own).
"""

from __future__ import annotations

import ast

import itertools
from fractions import Fraction
from typing import Any

from ..absexec import AbsExec, App, Decisions, Internal, MObj, Opaque, Raised, Sym, SymModule, Unknown, _Return, freeze
from ..algebra import Rat, Undefined
from ..pm import AnalysisError
from ..report import Check
from .common import loc

NP = SymModule("np", (("nan", float("nan")), ("inf", float("inf"))))


class IsNaN(Exception):
    pass


def to_rat(t: Any, zero: set[str]) -> Rat:
    """The value of a symbolic result when exactly the degrees named in `zero` are zero (the others are generic positive numbers)."""
    if isinstance(t, bool):
        raise Unknown("a truth value where a number is expected")
    if isinstance(t, (int, float)):
        if t != t:
            raise IsNaN()
        if abs(t) == float("inf"):
            raise Unknown("an infinite constant in the weighted formula")
        return Rat.const(Fraction(t).limit_denominator(10 ** 9))
    if isinstance(t, Sym):
        return Rat.const(0) if t.name in zero else Rat.sym(t.name)
    if isinstance(t, tuple) and t and t[0] == "L":
        raise Unknown("a list where a number is expected")
    if not isinstance(t, App):
        raise Unknown(f"`{t!r:.60}` in the weighted formula")
    f, a = t.fn, t.args
    if f in ("membership", "tsukamoto"):
        if len(a) > 1 and isinstance(a[1], Sym) and a[1].name in zero:
            raise IsNaN()  # the value of a term at degree 0 may be infinite (Sigmoid.tsukamoto(0), a Function 1/x): 0 * inf is NaN
        return Rat.sym(t)
    if f.startswith("binop:") or f in ("np.add", "np.subtract", "np.multiply", "np.divide", "np.true_divide"):
        op = f.split(":")[1] if ":" in f else {"np.add": "Add", "np.subtract": "Sub", "np.multiply": "Mult", "np.divide": "Div", "np.true_divide": "Div"}[f]
        x, y = to_rat(a[0], zero), to_rat(a[1], zero)
        if op == "Add":
            return x + y
        if op == "Sub":
            return x - y
        if op == "Mult":
            return x * y
        if op == "Div":
            if y.is_zero():
                raise IsNaN()  # 0/0 and x/0 of the weighted formulas: numpy gives nan / inf, and the statement says NaN for zero weights
            return x / y
        raise Unknown(f"operator {op} in the weighted formula")
    if f == "unop:USub" or f == "np.negative":
        return -to_rat(a[0], zero)
    if f == "unop:UAdd":
        return to_rat(a[0], zero)
    if f in ("np.where",) and len(a) == 3:
        return to_rat(a[1] if to_bool(a[0], zero) else a[2], zero)
    if f in (".squeeze", "np.squeeze", "np.asarray", "np.array", "np.atleast_1d", "np.float64", ".item", ".copy", ".astype", "np.nan_to_num_disabled") and a:
        return to_rat(a[0], zero)
    if f in ("np.sum", "np.nansum") and a and isinstance(a[0], tuple) and a[0] and a[0][0] == "L":
        total = Rat.const(0)
        for x in a[0][1:]:
            try:
                total = total + to_rat(x, zero)
            except IsNaN:
                if f == "np.sum":
                    raise
        return total
    raise Unknown(f"`{f}` in the weighted formula")


def _poly_sign(poly: Any) -> int | None:
    """+1 / -1 when the polynomial is a sum of monomials in the (positive) degree symbols with coefficients of one sign, else None."""
    if poly.is_zero():
        return 0
    if not all(isinstance(s_, str) for m in poly.t for s_, _ in m):
        return None
    signs = {1 if c > 0 else -1 for c in poly.t.values()}
    return signs.pop() if len(signs) == 1 else None


def rat_sign(d: Rat) -> int | None:
    a, b = _poly_sign(d.n), _poly_sign(d.d)
    return None if a is None or b is None or b == 0 else a * b


def to_bool(t: Any, zero: set[str]) -> bool:
    if isinstance(t, bool):
        return t
    if isinstance(t, App) and t.fn in ("np.any", "np.all", ".any", ".all", "np.count_nonzero", "truth") and t.args:
        try:
            return not to_rat(t.args[0], zero).is_zero()  # a degree that is not zero is a generic positive number
        except IsNaN:
            return True
        except Unknown:
            return to_bool(t.args[0], zero)  # any / all of a condition
    if isinstance(t, App) and t.fn.startswith("cmp:"):
        op = t.fn.split(":")[1]
        try:
            d = to_rat(t.args[0], zero) - to_rat(t.args[1], zero)
        except IsNaN:
            return op == "NotEq"
        if d.is_zero():
            return op in ("Eq", "LtE", "GtE")
        # generic positive degrees: the sign of w_i - 0 is positive; anything else is outside the model
        if d.n.is_const() and d.d.is_const():
            v = d.n.const_value() / d.d.const_value()
            return {"Eq": False, "NotEq": True, "Lt": v < 0, "LtE": v <= 0, "Gt": v > 0, "GtE": v >= 0}[op]
        sg = rat_sign(d)  # the non-zero degrees are generic positive numbers: a sum of them (running totals, products) has a definite sign
        if sg == 1:
            return {"Eq": False, "NotEq": True, "Lt": False, "LtE": False, "Gt": True, "GtE": True}[op]
        if sg == -1:
            return {"Eq": False, "NotEq": True, "Lt": True, "LtE": True, "Gt": False, "GtE": False}[op]
        raise Unknown("a comparison other than of a degree with zero in the weighted formula")
    if isinstance(t, App) and t.fn in ("unop:Invert", "unop:Not", "np.logical_not"):
        return not to_bool(t.args[0], zero)
    if isinstance(t, App) and t.fn in ("binop:BitAnd", "np.logical_and", "binop:BitOr", "np.logical_or") and len(t.args) == 2:
        x, y = to_bool(t.args[0], zero), to_bool(t.args[1], zero)
        return (x and y) if t.fn in ("binop:BitAnd", "np.logical_and") else (x or y)
    if isinstance(t, App) and t.fn in ("is_close", "np.isclose") and len(t.args) >= 2:
        # a comparison within the library's tolerance: true when the two are equal; when they differ (generic degrees: by any amount, small ones included) it may
        # come out either way - the formula must give the specified value both times (CLOSE[0] says which way this evaluation takes it)
        CLOSE[1] = True
        try:
            d = to_rat(t.args[0], zero) - to_rat(t.args[1], zero)
        except IsNaN:
            return False
        return True if d.is_zero() else CLOSE[0]
    if isinstance(t, (Sym, App, int, float)) and not isinstance(t, bool):
        try:
            return not to_rat(t, zero).is_zero()  # the truth value of a number
        except IsNaN:
            return True
    if isinstance(t, App) and t.fn in ("np.isnan",):
        try:
            to_rat(t.args[0], zero)
            return False
        except IsNaN:
            return True
    raise Unknown(f"`{t!r:.60}` as a condition in the weighted formula")


CLOSE = [False, False]  # [how a tolerance test on different values comes out in this evaluation, whether one was met]


def weighted_semantics(check: Check, rule: str = "W-sem") -> None:
    p = check.program
    kinds = ("Automatic", "TakagiSugeno", "Tsukamoto")
    type_ns = MObj("enum", {k: k for k in kinds})
    for cname in ("WeightedAverage", "WeightedSum"):
        fn = p.func(f"{cname}.defuzzify")
        check.analysed(fn)
        node = fn.node
        params = [a.arg for a in node.args.args]
        bad: dict[str, str] = {}
        cases = 0
        try:
            for k, fixed, inferred in itertools.product((0, 1, 2, 3), kinds, ("TakagiSugeno", "Tsukamoto", "Automatic")):
                if fixed != "Automatic" and inferred == "Automatic":
                    continue  # what the inference says does not matter for a fixed kind: two outcomes are enough
                kind = inferred if fixed == "Automatic" else fixed  # (inferred Automatic: the inverse Tsukamoto kind, membership at w)
                zname = "tsukamoto" if kind == "Tsukamoto" else "membership"

                def term(i: int) -> MObj:
                    return MObj("Term", {"name": f"t{i}", "__bool__": True,
                                         "membership": (lambda ex_, e, args, kw, i=i: App("membership", (f"t{i}", freeze(args[0])))),
                                         "tsukamoto": (lambda ex_, e, args, kw, i=i: App("tsukamoto", (f"t{i}", freeze(args[0]))))})

                what = f"{k} activated term(s), type {fixed}" + (f" (inferred {inferred})" if fixed == "Automatic" else "")
                paths: list[tuple[list[tuple[Any, bool]], Any, str | None]] = []  # (tests made on symbolic values with their outcomes, result, exception)

                def one(decide: Any) -> None:
                    groups = {f"t{i}": MObj("Activated", {"term": term(i), "degree": Sym(f"w{i}"), "implication": None, "__bool__": True}) for i in range(k)}
                    raw = []
                    for i in range(k):
                        if i == 0:  # the first term is activated twice: its grouped degree is the aggregation of two degrees of their own
                            raw += [MObj("Activated", {"term": term(i), "degree": Sym("w0a"), "__bool__": True}), MObj("Activated", {"term": term(i), "degree": Sym("w0b"), "__bool__": True})]
                        else:
                            raw.append(MObj("Activated", {"term": term(i), "degree": Sym(f"w{i}"), "__bool__": True}))
                    fuzzy = MObj("Aggregated", {"terms": raw, "aggregation": None, "name": "out", "__bool__": True, "__bases__": ("Term",)})
                    me = MObj(cname, {"type": fixed, "__bases__": ("WeightedDefuzzifier", "Defuzzifier")})
                    assumed: list[tuple[Any, bool]] = []

                    def decide_(ex_: Any, v: Any, e: Any) -> bool:
                        r_ = decide(ex_, v, e)
                        assumed.append((freeze(v), r_))
                        return r_

                    hooks = {"method:grouped_terms": lambda ex_, e, recv, args, kw: dict(groups),
                             "method:infer_type": lambda ex_, e, recv, args, kw: inferred, "decide": decide_,
                             "method:__getattribute__": lambda ex_, e, recv, args, kw: recv.fields[args[0]] if isinstance(recv, MObj) and args and args[0] in recv.fields else
                             (_ for _ in ()).throw(Internal("AttributeError", "no such attribute", e))}
                    ex = AbsExec(fn.qualname, hooks, helpers={k_: v for k_, v in fn.cls.methods.items() if k_ not in ("defuzzify", "infer_type", "__init__")})
                    ex.globals = {"np": NP, "Aggregated": ("class", "Aggregated"), "WeightedDefuzzifier": MObj("class", {"Type": type_ns}), "Activated": ("class", "Activated"),
                                  "Term": MObj("class", {"tsukamoto": MObj("function", {"__name__": "tsukamoto"}), "membership": MObj("function", {"__name__": "membership"})}),
                                  "scalar": lambda ex_, e, args, kw: App("np.asarray", (freeze(args[0]),)), "array": lambda ex_, e, args, kw: App("np.asarray", (freeze(args[0]),)),
                                  "nan": float("nan"), "inf": float("inf"),  # scalar(x) is a numpy number: dividing it by zero is nan / inf, not an exception
                                  "Scalar": Opaque("type"),
                                  "Op": MObj("class", {"is_close": lambda ex_, e, args, kw: App("is_close", (freeze(args[0]), freeze(args[1])))}),
                                  "Operation": MObj("class", {"is_close": lambda ex_, e, args, kw: App("is_close", (freeze(args[0]), freeze(args[1])))})}
                    # class-level constants of the defuzzifier (`undefined = nan`) are attributes of the model object too
                    for k_cls in reversed(fn.cls.mro or [fn.cls]):
                        for an, av in k_cls.class_attrs.items():
                            if an not in me.fields and not an.startswith("__") and not isinstance(av, (ast.FunctionDef, ast.ClassDef, ast.Lambda)):
                                try:
                                    me.fields[an] = ex.ev(av, {})
                                except (Unknown, Internal, Raised):
                                    pass
                    try:
                        got_: Any = None
                        try:
                            ex.block(list(node.body), {params[0]: me, params[1]: fuzzy, **{q: float("nan") for q in params[2:]}})
                        except _Return as r_:
                            got_ = r_.value
                    except (Raised, Internal) as err:
                        paths.append((assumed, None, err.cls))
                        return
                    paths.append((assumed, got_, None))

                Decisions(limit=256).explore(one)
                for zero in (set(z) for n_ in range(k + 1) for z in itertools.combinations([f"w{i}" for i in range(k)], n_)):
                    cases += 1
                    # the execution whose tests on the degrees come out the way this choice of zero degrees says
                    live_paths = [pth for pth in paths if all(to_bool(c_, zero) == o_ for c_, o_ in pth[0])]
                    if len(live_paths) != 1:
                        raise Unknown(f"{len(live_paths)} executions are consistent with the zero degrees {sorted(zero)}")
                    if live_paths[0][2] is not None:
                        bad.setdefault("no-internal-error", f"{what}, zero degrees {sorted(zero) or 'none'}: the method ends with {live_paths[0][2]}")
                        continue
                    got = live_paths[0][1]
                    live = [i for i in range(k) if f"w{i}" not in zero]
                    num = Rat.const(0)
                    den = Rat.const(0)
                    for i in live:
                        num = num + Rat.sym(f"w{i}") * Rat.sym(App(zname, (f"t{i}", Sym(f"w{i}"))))
                        den = den + Rat.sym(f"w{i}")
                    want: Rat | None = None if not live else (num / den if cname == "WeightedAverage" else num)
                    CLOSE[0], CLOSE[1] = False, False
                    try:
                        val: Rat | None = to_rat(freeze(got), zero)
                    except IsNaN:
                        val = None
                    except Undefined:
                        val = None
                    if CLOSE[1]:  # the result went through a tolerance test: once more with the test on different values coming out true
                        CLOSE[0] = True
                        try:
                            val2: Rat | None = to_rat(freeze(got), zero)
                        except (IsNaN, Undefined):
                            val2 = None
                        CLOSE[0] = False
                        differs = (val2 is None) != (want is None) or (val2 is not None and want is not None and not val2.equals(want))
                        if differs:
                            bad.setdefault("formula" if live else "nan", f"{what}, zero degrees {sorted(zero) or 'none'}: when a comparison within the library's tolerance (is_close) of two "
                                           f"different totals comes out true - degrees that are small but not zero - the result is "
                                           f"{'NaN' if val2 is None else '`' + val2.show(_name) + '`'}, specified {'NaN' if want is None else '`' + want.show(_name) + '`'}")
                    if (val is None) != (want is None):
                        key = "nan"
                        bad.setdefault(key, f"{what}, zero degrees {sorted(zero) or 'none'}: the result is " + ("NaN" if val is None else "a number")
                                       + ", specified " + ("NaN (no activation with a non-zero degree)" if want is None else "a number"))
                    elif val is not None and want is not None and not val.equals(want):
                        uses_other_kind = any(isinstance(s_, App) and s_.fn != zname for s_ in val.symbols())
                        raw_degrees = any(s_ in ("w0a", "w0b") for s_ in val.symbols())
                        key = "value" if uses_other_kind else ("grouping" if raw_degrees else ("zero-degree" if zero else "formula"))
                        bad.setdefault(key, f"{what}, zero degrees {sorted(zero) or 'none'}: the result is `{val.show(_name)}`, specified `{want.show(_name)}`")
        except Unknown as u:
            raise AnalysisError(str(u)) from None
        texts = {"formula": "sum(w*z) / sum(w)" if cname == "WeightedAverage" else "sum(w*z)", "value": "z is the term's tsukamoto (Tsukamoto kind) or membership at w, for the kind fixed or inferred",
                 "zero-degree": "an activation with degree 0 does not change the result", "nan": "NaN exactly when there is no activation with a non-zero degree",
                 "grouping": "the degrees are those of the grouped activations", "no-internal-error": "the method ends without an exception of its own"}
        for aspect, good in texts.items():
            hit = bad.get(aspect)
            check.require(hit is None, rule, f"{cname}.defuzzify/{aspect}", f"{good} ({cases} cases)" if hit is None else hit, loc(fn), {"cases": cases}, exhaustive=True, cases=cases)


def _name(s: Any) -> str:
    if isinstance(s, App):
        return f"{s.fn}({', '.join(_name(a) for a in s.args)})"
    if isinstance(s, Sym):
        return s.name
    return str(s)
