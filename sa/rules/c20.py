"""C20 - Temporary settings are always restored.

`Settings.context` is interpreted abstractly (Y-sem: every subset of the named settings, every way of leaving the with-body, nesting);
a parameter<->attribute table, and two package-wide who-may-read / who-may-write scans (each with a positive fixture that must
match on every run).
"""

from __future__ import annotations

import ast
import os

from ..pm import AnalysisError, Program, dotted, unparse
from ..report import VERIF, Check
from .common import loc

EXPLANATION = (
    "static analysis of Settings.context, Settings.__init__, Op.str, Op.is_close and a scan of every module of the "
    "package: Y-sem - the context manager is interpreted abstractly (sa/absexec.py) on a settings object with symbolic attribute values "
    "for every subset of the named settings (also requesting the values already held), a with-body that assigns every setting, and "
    "every way of leaving it (normal, Exception, KeyboardInterrupt, GeneratorExit) plus nested contexts: named settings restored, "
    "others untouched, values inside, generator protocol (try/finally and contextlib.ExitStack callbacks are both modelled); the "
    "context-parameter <-> Settings attribute table (derived by a probe run), no early-bound read of a setting (default arguments, class "
    "bodies, module level), no write to the settings singleton outside Settings"
    "; every context is also entered from the state in which settings are still None; if the settings class validates assignments, the k-th assignment is refused while the context is entered"
)
ASSUMPTIONS = [
    "contextlib.contextmanager semantics: an exception in the with-body is thrown in at the yield; generators are LIFO",
    "settings are plain instance attributes (vars(self)) as established by Settings.__init__",
]
FLOORS = {"Y-sem": 6, "Y1": 1, "Y5": 8, "Y6": 2, "Y7": 2, "Y8": 3}

SPEC_SETTINGS = ["float_type", "decimals", "atol", "rtol", "alias", "logger", "factory_manager"]


def run(check: Check) -> None:
    p = check.program
    context_semantics(check)
    decorator_rule(check)  # Y1; the snapshot / apply / try-finally / restore shape rules Y2-Y4 of round 1 are subsumed by Y-sem and were removed
    param_table(check)
    early_binding(check, p)
    who_may_write(check, p)
    call_time_reads(check)
    fixtures(check)


def decorator_rule(check: Check) -> None:
    p = check.program
    fn = p.func("Settings.context")
    deco = [p.resolve_global(d, fn.module) if "." not in d else d for d in
            [dotted(x.func if isinstance(x, ast.Call) else x) or "" for x in fn.node.decorator_list]]
    if not any(isinstance(x, (ast.Yield, ast.YieldFrom)) for x in ast.walk(fn.node)):
        # not a generator: Y-sem established that it returns an object of the package with __enter__ / __exit__ (or failed as an analysis error)
        check.ok("Y1", "Settings.context/decorator", "context returns a context-manager object (its __enter__ / __exit__ are interpreted by Y-sem)", loc(fn))
        return
    check.require(any(d in ("contextlib.contextmanager",) for d in deco), "Y1", "Settings.context/decorator",
                  f"context is a contextlib.contextmanager generator (decorators: {deco})", loc(fn))


def context_params(fn, program=None) -> tuple[list[str], dict[str, str]]:
    """(keyword parameters of context, {parameter: attribute it is stored under when different}). The mapping is obtained by
    interpreting the generator up to its yield with one parameter named at a time and looking which attribute then holds the requested
    value (sa/absexec.py), so it does not depend on how the renaming is spelled."""
    params = [x.name for x in fn.params if x.kind == "kwonly"]
    renames: dict[str, str] = {}
    if program is None:
        return params, renames
    from ..absexec import AbsExec, Internal, MObj, Raised, Unknown, _Return

    init = program.func("Settings.__init__")
    attrs = []
    none_attrs: set[str] = set()  # settings that start out as None (the factory manager before its first use)
    for n in ast.walk(init.analysis_node):
        if isinstance(n, (ast.Assign, ast.AnnAssign)):
            for t in (n.targets if isinstance(n, ast.Assign) else [n.target]):
                if isinstance(t, ast.Attribute) and isinstance(t.value, ast.Name) and t.value.id == "self" and t.attr not in attrs:
                    attrs.append(t.attr)
                    a_ = init.node.args
                    defaults_ = dict(zip([x.arg for x in (a_.posonlyargs + a_.args)][-len(a_.defaults):] if a_.defaults else [], a_.defaults))
                    defaults_.update({x.arg: d for x, d in zip(a_.kwonlyargs, a_.kw_defaults) if d is not None})
                    v_ = n.value
                    if isinstance(v_, ast.Name) and v_.id in defaults_:
                        v_ = defaults_[v_.id]  # what a Settings() built without arguments holds
                    if isinstance(v_, ast.Constant) and v_.value is None:
                        none_attrs.add(t.attr)
    is_generator = any(isinstance(x, (ast.Yield, ast.YieldFrom)) for x in ast.walk(fn.analysis_node))
    for prm in params:
        obj = MObj("Settings", {a: ("old", a) for a in attrs})
        seen: dict[str, object] = {}
        if not is_generator:  # an object with __enter__ / __exit__: what the settings hold once it is entered
            from ..objexec import ObjExec
            from .roundtrip_sem import E0

            ox = ObjExec(program, "Settings.context")
            try:
                cm = ox.invoke(fn, [obj], {prm: ("probe", prm)}, E0)
                ci = ox.class_of(cm)
                if ci is None or ci.lookup("__enter__") is None:
                    raise AnalysisError("Settings.context is neither a generator nor returns an object of the package with __enter__ / __exit__")
                ox.invoke(ci.lookup("__enter__"), [cm], {}, E0)
            except (Raised, Internal):
                pass
            except Unknown as u:
                raise AnalysisError(str(u)) from None
            seen.update(obj.fields)
            holders = [a for a, v in seen.items() if v == ("probe", prm)]
            if len(holders) == 1 and holders[0] != prm:
                renames[prm] = holders[0]
            elif not holders:
                renames[prm] = f"<no attribute holds the requested {prm} inside the context>"
            continue

        def on_yield(ex_, e, value, env, obj=obj, seen=seen):
            seen.update(obj.fields)
            raise _Return(None)

        ex = AbsExec(fn.qualname, {"yield": on_yield}, helpers={k: v for k, v in fn.cls.methods.items() if k != fn.name} if fn.cls is not None else None)
        if fn.cls is not None:
            for pname in fn.cls.setters:
                ex.properties[(obj.cls, pname)] = (fn.cls.lookup_getter(pname), fn.cls.setters.get(pname))
        env = {"self": obj, **{q: (("probe", prm) if q == prm else None) for q in params}}
        try:
            ex.block(list(fn.analysis_node.body), env)
        except (_Return, Raised, Internal):
            pass
        except Unknown as u:
            raise AnalysisError(str(u)) from None
        holders = [a for a, v in seen.items() if v == ("probe", prm)]
        if len(holders) == 1 and holders[0] != prm:
            renames[prm] = holders[0]
        elif not holders:
            renames[prm] = f"<no attribute holds the requested {prm} inside the context>"
    return params, renames


def param_table(check: Check) -> None:
    p = check.program
    fn = p.func("Settings.context")
    init = p.func("Settings.__init__")
    check.analysed(init)
    params, renames = context_params(fn, p)
    attrs = set()
    for n in ast.walk(init.analysis_node):
        if isinstance(n, (ast.Assign, ast.AnnAssign)):
            for t in (n.targets if isinstance(n, ast.Assign) else [n.target]):
                if isinstance(t, ast.Attribute) and isinstance(t.value, ast.Name) and t.value.id == "self":
                    attrs.add(t.attr)
    check.require(sorted(params) == sorted(SPEC_SETTINGS), "Y5", "Settings.context/parameters",
                  f"context accepts exactly the seven settings of the specification (found {params})", loc(fn))
    for prm in params:
        target = renames.get(prm, prm)
        check.require(target in attrs, "Y5", f"Settings.context/{prm}",
                      f"context parameter `{prm}` is stored under attribute `{target}`, which Settings.__init__ "
                      f"{'sets' if target in attrs else 'does NOT set (the snapshot has no such key / a new attribute would be created)'}",
                      loc(fn))


def _settings_names(mod) -> set[str]:
    names = {k for k, v in mod.imports.items() if v == "fuzzylite.library.settings"}
    if mod.name == "fuzzylite.library":
        names.add("settings")
    return names


def scan_early_reads(tree: ast.Module, names: set[str]) -> list[tuple[int, str, str]]:
    """settings.<attr> loads evaluated at import/definition time: (line, where, expr)."""
    out: list[tuple[int, str, str]] = []

    def reads(e: ast.AST) -> list[ast.Attribute]:
        return [x for x in ast.walk(e) if isinstance(x, ast.Attribute) and isinstance(x.ctx, ast.Load)
                and isinstance(x.value, ast.Name) and x.value.id in names]

    def visit_body(body: list[ast.stmt], where: str) -> None:
        for s in body:
            if isinstance(s, (ast.FunctionDef, ast.AsyncFunctionDef)):
                for d in list(s.args.defaults) + [k for k in s.args.kw_defaults if k is not None] + list(s.decorator_list):
                    for x in reads(d):
                        out.append((x.lineno, f"default argument / decorator of {s.name}", unparse(x)))
                # nested definitions inside function bodies are evaluated at call time: only their defaults matter
                for inner in ast.walk(s):
                    if inner is not s and isinstance(inner, (ast.FunctionDef, ast.Lambda)):
                        args = inner.args
                        for d in list(args.defaults) + [k for k in args.kw_defaults if k is not None]:
                            pass  # evaluated when the enclosing function runs: late enough
            elif isinstance(s, ast.ClassDef):
                for d in s.decorator_list + s.bases:
                    for x in reads(d):
                        out.append((x.lineno, f"class header of {s.name}", unparse(x)))
                visit_body(s.body, f"class body of {s.name}")
            elif isinstance(s, (ast.If, ast.Try, ast.With, ast.For, ast.While)):
                for f in ("body", "orelse", "finalbody"):
                    visit_body(getattr(s, f, []) or [], where)
                for h in getattr(s, "handlers", []):
                    visit_body(h.body, where)
                for e in [getattr(s, "test", None), getattr(s, "iter", None)]:
                    if e is not None:
                        for x in reads(e):
                            out.append((x.lineno, where, unparse(x)))
            else:
                for x in reads(s):
                    out.append((x.lineno, where, unparse(x)))

    visit_body(tree.body, "module level")
    return out


def scan_writes(tree: ast.Module, names: set[str]) -> list[tuple[int, str]]:
    out = []
    for n in ast.walk(tree):
        targets: list[ast.AST] = []
        if isinstance(n, ast.Assign):
            targets = list(n.targets)
        elif isinstance(n, (ast.AugAssign, ast.AnnAssign)):
            targets = [n.target]
        elif isinstance(n, ast.Delete):
            targets = list(n.targets)
        for t in targets:
            for x in ast.walk(t):
                if isinstance(x, ast.Attribute) and isinstance(x.value, ast.Name) and x.value.id in names and \
                        isinstance(x.ctx, (ast.Store, ast.Del)):
                    out.append((x.lineno, unparse(x)))
        if isinstance(n, ast.Call) and isinstance(n.func, ast.Name) and n.func.id in ("setattr", "delattr") and n.args and \
                isinstance(n.args[0], ast.Name) and n.args[0].id in names:
            out.append((n.lineno, unparse(n)))
        if isinstance(n, ast.Call) and isinstance(n.func, ast.Attribute) and n.func.attr in ("update", "__setattr__") and \
                isinstance(n.func.value, ast.Call) and isinstance(n.func.value.func, ast.Name) and n.func.value.func.id == "vars" \
                and n.func.value.args and isinstance(n.func.value.args[0], ast.Name) and n.func.value.args[0].id in names:
            out.append((n.lineno, unparse(n)))
    return out


def early_binding(check: Check, p: Program) -> None:
    hits = []
    for mod in p.modules.values():
        names = _settings_names(mod)
        if not names:
            continue
        check.units.add(mod.relpath)
        for line, where, expr in scan_early_reads(mod.tree, names):
            hits.append((mod.relpath, line, where, expr))
    for rel, line, where, expr in hits:
        check.violation("Y6", f"{rel}/{where}/{expr}", f"`{expr}` is read at import/definition time ({where}): the value is "
                        "frozen outside any settings context", f"{rel}:{line}")
    if not hits:
        check.ok("Y6", "package/early-reads", f"no setting is read in a default argument, class body or at module level "
                 f"({len(p.modules)} modules scanned)")


def who_may_write(check: Check, p: Program) -> None:
    hits = []
    for mod in p.modules.values():
        names = _settings_names(mod)
        if not names:
            continue
        for line, expr in scan_writes(mod.tree, names):
            hits.append((mod.relpath, line, expr))
    for rel, line, expr in hits:
        check.violation("Y7", f"{rel}/{expr}", f"`{expr}` writes the settings singleton outside the Settings class", f"{rel}:{line}")
    if not hits:
        check.ok("Y7", "package/writes", "no module of the package assigns an attribute of the settings singleton")


def call_time_reads(check: Check) -> None:
    p = check.program
    for qual, wanted in (("Operation.str", ["decimals"]), ("Operation.is_close", ["atol", "rtol"])):
        fn = p.func(qual)
        check.analysed(fn)
        body_reads = {x.attr for s in fn.body for x in ast.walk(s) if isinstance(x, ast.Attribute) and
                      isinstance(x.value, ast.Name) and x.value.id in _settings_names(fn.module)}
        for w in wanted:
            check.require(w in body_reads, "Y8", f"{qual}/{w}",
                          f"{qual} reads settings.{w} in its body (at call time)", loc(fn))


def fixtures(check: Check) -> None:
    """Zero-count rules keep a positive example that must match on every run."""
    path = os.path.join(VERIF, "selftest", "fixtures", "c20_settings_misuse.py")
    with open(path, encoding="utf-8") as f:
        tree = ast.parse(f.read())
    reads = scan_early_reads(tree, {"settings"})
    writes = scan_writes(tree, {"settings"})
    if len(reads) < 4 or len(writes) < 3:
        raise AnalysisError(f"positive fixture for Y6/Y7 no longer matches (reads={len(reads)}, writes={len(writes)})")
    check.ok("Y6", "fixture/early-reads", f"positive fixture matched {len(reads)} early reads")
    check.ok("Y7", "fixture/writes", f"positive fixture matched {len(writes)} foreign writes")


# ------------------------------------------------------------------------------------------------ Y-sem
def context_semantics(check: Check) -> None:
    """Y-sem [E]: `Settings.context` is interpreted abstractly (sa/absexec.py) on a settings object whose attributes hold distinct
    symbolic values, for every subset of the named settings, a with-body that assigns *every* setting directly, and every way of
    leaving the body (normally, by an Exception, by a BaseException such as KeyboardInterrupt, by GeneratorExit). Specified:
    inside the body the named settings hold the requested values and the others their previous ones; after the context every
    named setting holds its previous value again and every other setting what the body assigned. Nesting is covered by running a
    second context inside the body of the first."""
    import itertools

    from ..absexec import AbsExec, Internal, MObj, Raised, Unknown, _Return

    p = check.program
    fn = p.func("Settings.context")
    init = p.func("Settings.__init__")
    check.analysed(fn)
    node = fn.analysis_node
    params, renames = context_params(fn, p)
    attrs = []
    none_attrs: set[str] = set()  # settings that start out as None (the factory manager before its first use)
    for n in ast.walk(init.analysis_node):
        if isinstance(n, (ast.Assign, ast.AnnAssign)):
            for t in (n.targets if isinstance(n, ast.Assign) else [n.target]):
                if isinstance(t, ast.Attribute) and isinstance(t.value, ast.Name) and t.value.id == "self" and t.attr not in attrs:
                    attrs.append(t.attr)
                    a_ = init.node.args
                    defaults_ = dict(zip([x.arg for x in (a_.posonlyargs + a_.args)][-len(a_.defaults):] if a_.defaults else [], a_.defaults))
                    defaults_.update({x.arg: d for x, d in zip(a_.kwonlyargs, a_.kw_defaults) if d is not None})
                    v_ = n.value
                    if isinstance(v_, ast.Name) and v_.id in defaults_:
                        v_ = defaults_[v_.id]  # what a Settings() built without arguments holds
                    if isinstance(v_, ast.Constant) and v_.value is None:
                        none_attrs.add(t.attr)
    if not params or not attrs:
        raise AnalysisError("Settings.context / Settings.__init__: parameters or attributes not found")
    attr_of = {prm: renames.get(prm, prm) for prm in params}
    EXITS = [None, "ValueError", "KeyboardInterrupt", "GeneratorExit"]
    bad: dict[str, str] = {}
    cases = 0

    def run_context(obj: MObj, named: tuple[str, ...], tag: str, body, same: bool = False, fail_at: int = 0) -> tuple[str, str | None]:
        """Interpret context(**{n: new(n)}) on obj; `body(obj)` runs at the yield and may raise Raised. Returns (outcome, class).
        `fail_at` = k > 0: the k-th assignment of a setting made through setattr() is refused with ValueError (a validating `__setattr__`)."""
        state = {"yields": 0, "sets": 0}

        def refusing_setattr(ex_, e, args):
            state["sets"] += 1
            if fail_at and state["sets"] == fail_at:
                raise Raised("ValueError", e)
            return NotImplemented

        def on_yield(ex_, e, value, env):
            state["yields"] += 1
            body(obj)
            return None

        ex = AbsExec(fn.qualname, {"yield": on_yield, "builtin:setattr": refusing_setattr},
                     helpers={k: v for k, v in fn.cls.methods.items() if k != fn.name} if fn.cls is not None else None)
        if fn.cls is not None:  # the properties of the settings class (the lazily built factory manager, the debugging switch) answer getattr / setattr too
            for pname in fn.cls.setters:
                ex.properties[(obj.cls, pname)] = (fn.cls.lookup_getter(pname), fn.cls.setters.get(pname))
        env = {"self": obj}
        for prm in params:
            env[prm] = (("old", attr_of[prm]) if same else ("new", tag, prm)) if prm in named else None
        try:
            ex.block(list(node.body), env)
        except Raised as r:
            return ("raise", r.cls) if state["yields"] else ("raise-before-yield", r.cls)
        except Internal as i:
            return "internal", f"{i.cls}: {i.why}"
        except _Return:
            pass
        if state["yields"] != 1:
            return "yields", str(state["yields"])
        return "ok", None

    is_generator = any(isinstance(x, (ast.Yield, ast.YieldFrom)) for x in ast.walk(node))
    generator_run = run_context
    cm_classes: set[str] = set()

    def run_context_object(obj: MObj, named: tuple[str, ...], tag: str, body, same: bool = False, fail_at: int = 0, reenter: bool = False) -> tuple[str, str | None]:
        """The same experiment when `context` is not a generator but returns an object with `__enter__` / `__exit__` (interpreted with sa/objexec.py):
        context(...) is called, the object entered, the body run, the object left with the body's exception (or none). `reenter`: the *same* object
        is entered a second time inside its own body and left again - what a `ContextDecorator` used on a recursive function does."""
        from ..objexec import ObjExec
        from .roundtrip_sem import E0

        ex = ObjExec(p, "Settings.context")
        ex.globals.update({"nan": float("nan"), "inf": float("inf")})
        kw = {prm: (("old", attr_of[prm]) if same else ("new", tag, prm)) for prm in params if prm in named}
        try:
            cm = ex.invoke(fn, [obj], kw, E0)
            ci = ex.class_of(cm)
            if ci is None or ci.lookup("__enter__") is None or ci.lookup("__exit__") is None:
                raise Unknown("Settings.context is neither a generator nor returns an object of the package with __enter__ / __exit__")
            cm_classes.add(ci.qualname)
            ex.invoke(ci.lookup("__enter__"), [cm], {}, E0)
        except Raised as r:
            return "raise-before-yield", r.cls
        except Internal as i:
            return "internal", f"{i.cls}: {i.why}"
        exc: Raised | None = None
        try:
            if reenter:
                ex.invoke(ci.lookup("__enter__"), [cm], {}, E0)
                ex.invoke(ci.lookup("__exit__"), [cm, None, None, None], {}, E0)
            body(obj)
        except Raised as r:
            exc = r
        except Internal as i:
            return "internal", f"{i.cls}: {i.why}"
        try:
            res = ex.invoke(ci.lookup("__exit__"), [cm] + ([("exc-class", exc.cls), MObj("<exception>", {"cls": exc.cls}), MObj("<traceback>", {})] if exc else [None, None, None]), {}, E0)
        except Raised as r:
            return "raise", r.cls
        except Internal as i:
            return "internal", f"{i.cls}: {i.why}"
        if exc is not None:
            return ("ok", None) if (res is not None and ex.truth(res, E0)) else ("raise", exc.cls)
        return "ok", None

    if not is_generator:
        run_context = run_context_object  # noqa: F811

    initial_none = [False]

    def old(a: str) -> object:
        return None if initial_none[0] and a in none_attrs else ("old", a)

    def fresh() -> MObj:
        return MObj("Settings", {a: old(a) for a in attrs})

    def note(kind: str, text: str) -> None:
        bad.setdefault(kind, text)

    subsets = [c for k in range(len(params) + 1) for c in itertools.combinations(params, k)]
    try:
        runs = [(n_, False, False) for n_ in subsets] + [(n_, True, False) for n_ in subsets if n_]
        if none_attrs:  # once more from the state in which those settings still hold their initial None
            runs += [(n_, False, True) for n_ in subsets if any(attr_of[q] in none_attrs for q in n_)]
        for named, same, from_none in runs:
            initial_none[0] = from_none
            for exit_cls in EXITS:
                cases += 1
                obj = fresh()
                inside: dict[str, object] = {}

                def body(o: MObj, exit_cls=exit_cls, inside=inside) -> None:
                    inside.update(o.fields)
                    for a in attrs:  # the with-body assigns every setting directly
                        o.fields[a] = ("body", a)
                    if exit_cls is not None:
                        raise Raised(exit_cls)

                outcome, cls = run_context(obj, named, "c1", body, same)
                what = f"context({', '.join(named) or 'nothing'}{' - requesting the values the settings already hold' if same else ''}" \
                    f"{' - entered while ' + ', '.join(sorted(none_attrs)) + ' is still None' if from_none else ''}) left {'normally' if exit_cls is None else 'by ' + exit_cls}"
                if outcome == "internal":
                    note("internal", f"{what}: internal error {cls}")
                    continue
                if outcome in ("yields", "raise-before-yield"):
                    note("protocol", f"{what}: the generator yields {cls} time(s) / raises {cls} before yielding" if outcome == "yields" else f"{what}: raises {cls} before the body runs")
                    continue
                if exit_cls is None and outcome != "ok":
                    note("protocol", f"{what}: raises {cls} although the body completed")
                if exit_cls is not None and not (outcome == "raise" and cls == exit_cls):
                    note("swallow", f"{what}: the exception is {'swallowed' if outcome == 'ok' else 'replaced by ' + str(cls)}")
                for prm in params:
                    a = attr_of[prm]
                    want_in = ("new", "c1", prm) if prm in named and not same else old(a)
                    if inside.get(a) != want_in:
                        note("inside", f"{what}: inside the context `{a}` holds {inside.get(a)} (specified {want_in})")
                    want_after = old(a) if prm in named else ("body", a)
                    got = obj.fields.get(a)
                    if got != want_after:
                        kind = "not-restored" if prm in named else "touched"
                        note(f"{kind}:{'exc' if exit_cls else 'normal'}",
                             f"{what}: afterwards `{a}` holds {got}, specified {want_after} "
                             + ("(a named setting must have its previous value again)" if prm in named else "(a setting not named in the context must not be touched)"))
                extra = set(obj.fields) - set(attrs)
                if extra:
                    note("extra", f"{what}: leaves new attributes {sorted(extra)} on the settings object")
        initial_none[0] = False
        # a settings class that validates what it is assigned (`__setattr__`, a raising property setter) can refuse a requested value while the
        # context is being entered: the settings already applied must not stay behind
        validating = fn.cls is not None and ("__setattr__" in fn.cls.methods or any(
            any(isinstance(x, ast.Raise) for x in ast.walk(st.node)) for st in fn.cls.setters.values()))
        if validating and is_generator:
            for named in [c for c in subsets if len(c) == 2][:6]:
                for k in (1, 2):
                    cases += 1
                    obj = fresh()
                    outcome, cls = run_context(obj, named, "c1", lambda o: None, False, fail_at=k)
                    if outcome == "raise-before-yield" and obj.fields != {a: old(a) for a in attrs}:
                        left = {a: v for a, v in obj.fields.items() if v != old(a)}
                        note("not-restored:exc", f"context({', '.join(named)}) whose {k}. value is refused with {cls} while the context is entered: the with-statement is left by "
                                                 f"the exception, but {sorted(left)} keep the temporary value(s)")
        # nesting: an inner context inside the body of an outer one, inner left by an exception that the outer body lets through / handles
        pairs = [((params[0],), (params[0],)), ((params[0], params[1]), (params[1],)), ((params[0],), (params[1],)), ((), (params[0],))]
        for outer, inner in pairs:
            for inner_exit in (None, "ValueError"):
                cases += 1
                obj = fresh()

                def inner_body(o: MObj, inner_exit=inner_exit) -> None:
                    if inner_exit is not None:
                        raise Raised(inner_exit)

                def outer_body(o: MObj, inner=inner, inner_body=inner_body) -> None:
                    mid = dict(o.fields)
                    out_, cls_ = run_context(o, inner, "c2", inner_body)
                    if dict(o.fields) != mid:
                        note("nesting", f"context({', '.join(inner)}) nested in context({', '.join(outer)}): after the inner context the settings are "
                             f"{ {k: v for k, v in o.fields.items() if mid.get(k) != v} }, not what the outer context established")
                    # the outer body handles the inner exception

                run_context(obj, outer, "c1", outer_body)
                if obj.fields != {a: ("old", a) for a in attrs}:
                    note("nesting", f"nested contexts ({', '.join(outer)}) / ({', '.join(inner)}): afterwards the settings are not the initial ones")
        if not is_generator:
            # an object that can be entered again while it is active (contextlib.ContextDecorator hands the *same* object to every call of the decorated
            # function unless `_recreate_cm` is overridden; the generator-based manager is recreated per call): the settings must still come back
            for cq in sorted(cm_classes):
                ci_ = p.classes[cq]
                decorator = any(getattr(b, "id", getattr(b, "attr", "")) == "ContextDecorator" for k_ in ci_.mro for b in k_.node.bases)
                if decorator and ci_.lookup("_recreate_cm") is None:
                    for named in [c for c in subsets if len(c) in (1, 2)][:6]:
                        cases += 1
                        obj = fresh()
                        outcome, cls = run_context_object(obj, named, "c1", lambda o: None, False, 0, True)
                        if obj.fields != {a: ("old", a) for a in attrs}:
                            left = sorted(a for a, v in obj.fields.items() if v != ("old", a))
                            note("nesting", f"context({', '.join(named)}) used as a decorator (contextlib.ContextDecorator hands the same object to every call) on a function "
                                            f"that calls itself: the second entry overwrites what the first saved, and afterwards {left} keep the temporary value(s)")
    except Unknown as u:
        raise AnalysisError(str(u)) from None

    def verdict(construct: str, kinds: list[str], ok_text: str) -> None:
        hits = [bad[k] for k in kinds if k in bad]
        check.require(not hits, "Y-sem", f"Settings.context/{construct}", ok_text if not hits else hits[0], loc(fn),
                      {"cases": cases, "subsets": len(subsets), "exits": [e or "normal" for e in EXITS]}, exhaustive=True, cases=cases)

    verdict("restored-on-normal-exit", ["not-restored:normal"], f"every named setting has its previous value after a normal exit ({len(subsets)} subsets of the settings)")
    verdict("restored-on-exception", ["not-restored:exc"], "every named setting has its previous value after leaving by Exception, KeyboardInterrupt or GeneratorExit")
    verdict("others-untouched", ["touched:normal", "touched:exc", "extra"], "settings not named in the context keep whatever the body assigned to them")
    verdict("values-inside", ["inside"], "inside the context the named settings hold the requested values, the others their previous ones")
    verdict("protocol", ["protocol", "swallow", "internal"], "the generator yields exactly once, never swallows or replaces the body's exception, and has no internal error")
    verdict("nesting", ["nesting"], "nested contexts restore innermost first, to the values the enclosing context established")
