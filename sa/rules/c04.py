"""C04 - T-norms and S-norms compute their formulas and obey the norm laws (decided over real arithmetic, piece by piece)."""

from __future__ import annotations

from fractions import Fraction
from typing import Any

from ..absint import return_term
from ..pm import AnalysisError
from ..report import Check
from ..sym import Term
from . import c02
from .common import loc

EXPLANATION = (
    "static analysis of the 7 T-norms and 9 S-norms over real arithmetic: for every order type of the operands against 0, 1 "
    "and every compared linear form (a+b against 1, a against b; enumerated through witnesses on the quarter grid) the resolved "
    "compute() term is brought to a rational-function normal form (sa/ordertype.py, sa/algebra.py) and compared with: F the "
    "documented formula (class docstrings, transcribed); L1 the same norm with swapped operands (commutativity); L2 identity and "
    "annihilator at the order types where an operand is 0 or 1; L3 min(a,b) / max(a,b) and the range [0,1], through the sign of "
    "the factored difference (interval arithmetic over the order type as a fallback); L4 the dual 1 - T(1-a, 1-b) of the "
    "same-family T-norm; L5 monotonicity, as the sign of compute(a2,b) - compute(a,b) at every order type with a <= a2; "
    "L6 associativity compute(compute(a,b),c) == compute(a,compute(b,c)) (not NormalizedSum). A violation is reported only for a "
    "definite disagreement (different normal forms confirmed by their values at the witness, or a definite wrong sign); the "
    "numbers of order types proven / undecided are reported. Elementwise safety of every kernel is C02/V1; operators are applied to the "
    "operands only after scalar() coercion (V8); kernels are pure (K1)"
    "; every kernel returns the broadcast shape of its operands and never reduces over, indexes away or concatenates along an operand's dimension (V9 on the shape lattice)"
    "; H10 / H8 - no kernel writes into what it is handed or returns cached storage; scalar() yields plain arrays (V8)"
)
ASSUMPTIONS = [
    "real arithmetic: floating-point rounding (e.g. of a+b near 1) is not modelled",
    "operands in [0,1]; the transcription of the documented formulas in NORMS is faithful (NilpotentMaximum's docstring says a+b<0 where a+b<1 is meant)",
]
LEVEL_SCOPE = ("Decides the listed clauses for every order type (piece) over real arithmetic, reporting only definite disagreements; floating-point "
               "rounding and the clauses listed as undecided are not decided.")
FLOORS = {"V9": 80, "V10": 2, "K1": 16, "F": 16, "L1": 16, "L2": 16, "L3": 16, "L4": 7, "L5": 16, "L6": 15, "V1": 16, "V8": 16}

# documented formulas: cases in order (first match wins), over a, b
NORMS: dict[str, dict] = {
    "Minimum": {"kind": "T", "cases": [(None, "min(a, b)")], "dual": "Maximum"},
    "AlgebraicProduct": {"kind": "T", "cases": [(None, "a * b")], "dual": "AlgebraicSum"},
    "BoundedDifference": {"kind": "T", "cases": [(None, "max(0, a + b - 1)")], "dual": "BoundedSum"},
    "DrasticProduct": {"kind": "T", "cases": [("max(a, b) == 1", "min(a, b)"), (None, "0")], "dual": "DrasticSum"},
    "EinsteinProduct": {"kind": "T", "cases": [(None, "a * b / (2 - (a + b - a * b))")], "dual": "EinsteinSum"},
    "HamacherProduct": {"kind": "T", "cases": [("a + b == 0", "0"), (None, "a * b / (a + b - a * b)")], "dual": "HamacherSum"},
    "NilpotentMinimum": {"kind": "T", "cases": [("a + b > 1", "min(a, b)"), (None, "0")], "dual": "NilpotentMaximum"},
    "Maximum": {"kind": "S", "cases": [(None, "max(a, b)")]},
    "AlgebraicSum": {"kind": "S", "cases": [(None, "a + b - a * b")]},
    "BoundedSum": {"kind": "S", "cases": [(None, "min(1, a + b)")]},
    "DrasticSum": {"kind": "S", "cases": [("min(a, b) == 0", "max(a, b)"), (None, "1")]},
    "EinsteinSum": {"kind": "S", "cases": [(None, "(a + b) / (1 + a * b)")]},
    "HamacherSum": {"kind": "S", "cases": [("a == 1 and b == 1", "1"), (None, "(a + b - 2 * a * b) / (1 - a * b)")]},
    "NilpotentMaximum": {"kind": "S", "cases": [("a + b < 1", "max(a, b)"), (None, "1")]},
    "NormalizedSum": {"kind": "S", "cases": [(None, "(a + b) / max(1, a + b)")], "not_associative": True},
    "UnboundedSum": {"kind": "S", "cases": [(None, "a + b")], "unbounded": True},
}
# the quarter grid, plus points closer to 0 and 1 than the library's comparison tolerance (so that an order type "close to 1 but
# not 1" exists whenever a kernel compares with a tolerance)
GRID = [Fraction(0), Fraction(1, 4096), Fraction(1, 4), Fraction(1, 2), Fraction(3, 4), Fraction(4095, 4096), Fraction(1)]
ZERO_T, ONE_T = ("const", 0), ("const", 1)


def substitute(t: Any, mapping: dict) -> Any:
    if isinstance(t, tuple) and t and isinstance(t[0], str):
        if t in mapping:
            return mapping[t]
        return tuple(substitute(x, mapping) for x in t)
    if isinstance(t, tuple):
        return tuple(substitute(x, mapping) for x in t)
    return t


class Pieces:
    """Order types of some operands in [0,1] together with an evaluator per order type."""

    def __init__(self, check: Check, operands: list[Term], terms: list[Term]):
        from ..ordertype import LinearForms, OrderEval, comparison_forms, leaf_env, make_algebra, order_types, spec_term

        self.p = check.program
        atoms = {ZERO_T: "pinned", ONE_T: "pinned"}
        grids: dict = {ZERO_T: [Fraction(0)], ONE_T: [Fraction(1)]}
        for o in operands:
            atoms[o] = "position"
            grids[o] = GRID
        lf0 = LinearForms({a: 0 for a in atoms}, atoms, {})
        forms = comparison_forms(lf0, terms)
        self.items = []
        for lf in order_types(atoms, forms, None, grids):
            ev = OrderEval(self.p, lf, leaf_env(lf))
            alg = make_algebra(lf)
            ev.alg = alg
            self.items.append((lf, ev, alg))
        self.short = {ZERO_T: "0", ONE_T: "1", **{o: o[1] for o in operands}}


def compare_exact(a_term: Any, b_term: Any, lf, ev, alg, cases_a=None, cases_b=None) -> tuple[str, str]:  # type: ignore[no-untyped-def]
    """('equal' | 'different' | 'undecided', detail) for two terms (or case lists) at one order type."""
    from ..ordertype import IsNaN, NotAlgebraic, exact_value, numeric_witness
    from .c03 import _Witness, exact_cases

    def val(t, cases):  # type: ignore[no-untyped-def]
        try:
            return exact_cases(cases, ev, alg) if cases is not None else exact_value(t, ev, alg)
        except IsNaN:
            return "nan"

    try:
        ra, rb = val(a_term, cases_a), val(b_term, cases_b)
    except NotAlgebraic as ex:
        return "undecided", str(ex)[:80]
    if ra == "nan" or rb == "nan":
        return ("equal", "") if ra == rb else ("different", f"{'nan' if ra == 'nan' else 'a number'} vs {'nan' if rb == 'nan' else 'a number'}")
    if ra.equals(rb):
        return "equal", ""
    w = _Witness(numeric_witness(lf))
    x, y = alg.evaluate(ra, w), alg.evaluate(rb, w)
    if x == x and y == y and abs(x - y) > 1e-9 * max(1.0, abs(x), abs(y)):
        return "different", f"{ra.show(alg.name({}))[:70]} vs {rb.show(alg.name({}))[:70]}"
    return "undecided", "normal forms differ without a numeric difference at the witness"


def sign_of_difference(a_term: Any, b_term: Any, lf, ev, alg) -> str | None:  # type: ignore[no-untyped-def]
    from ..ordertype import IsNaN, NotAlgebraic, exact_value, rat_sign

    s_ = None
    try:
        s_ = rat_sign(exact_value(a_term, ev, alg) - exact_value(b_term, ev, alg), lf, alg)
    except (NotAlgebraic, IsNaN):
        pass
    if s_ is None:
        from ..ordertype import term_interval

        iv = term_interval(("binop", "-", a_term, b_term), ev, alg)
        s_ = iv.sign() if iv is not None else None
    return s_


def run(check: Check) -> None:
    from .common import numpy_pitfalls

    if not numpy_pitfalls(check, "V10", {"fuzzylite/norm.py"}):
        return  # the kernels are not the elementwise expressions the interpreters assume
    from .c02 import shapes

    shapes(check, only_kernels_of=("Norm",))  # V9: every kernel returns the broadcast shape of its operands and never mixes their rows / sample points
    from .c13 import no_inplace_on_handed_values
    from .common import memoisation_rule

    no_inplace_on_handed_values(check, [f"{c.name}.compute" for c in check.program.subclasses("Norm") if "compute" in c.methods])  # H10: no out= / copy=False / in-place method
    memoisation_rule(check)  # H8: no cached storage or results behind a kernel
    from .common import scalar_is_base_array

    scalar_is_base_array(check)  # the coercion every kernel starts with yields plain arrays
    from ..ordertype import describe, flatten, spec_term

    p = check.program
    A, B, C, A2 = ("param", "a"), ("param", "b"), ("param", "c"), ("param", "a2")
    code: dict[str, Term] = {}
    fns = {}
    for name in NORMS:
        c = p.cls(name)
        fn = c.methods.get("compute")
        if fn is None:
            raise AnalysisError(f"anchor vanished: {name}.compute")
        check.analysed(fn)
        from .common import kernel_purity

        if not kernel_purity(check, fn, "K1", f"{name}.compute/pure", set()):
            continue
        from .common import coerce_first

        if not coerce_first(check, fn, "V8", f"{name}.compute/coerce-first"):
            continue  # the operands are not the values the interpreters assume
        fns[name] = fn
        a_, b_ = ("param", fn.params[1].name), ("param", fn.params[2].name)
        code[name] = substitute(flatten(p, return_term(p, c, "compute")), {a_: A, b_: B})
        c02.kernel_elementwise(check, fn, "V1", f"{name}.compute")
    names = {"a": A, "b": B}

    def tally(rule: str, construct: str, ok_text: str, fn, results: list[tuple[str, str, str]], total: int) -> None:  # type: ignore[no-untyped-def]
        bad = [r for r in results if r[0] == "different"]
        und = [r for r in results if r[0] == "undecided"]
        good = total - len(bad) - len(und)
        check.require(not bad, rule, construct,
                      f"{ok_text} ({good} of {total} order types proven" + (f", {len(und)} undecided" if und else "") + ")" if not bad else
                      f"at `{bad[0][1]}`: {bad[0][2]}" + (f" (and {len(bad) - 1} more order types)" if len(bad) > 1 else ""), loc(fn),
                      {"order_types": total, "proven": good, "undecided": [(r[1], r[2]) for r in und[:4]], "different": [(r[1], r[2]) for r in bad[:4]]},
                      exhaustive=True, cases=total)

    for name, spec in NORMS.items():
        if name not in fns or (spec.get("dual") and spec["dual"] not in fns):
            continue
        fn = fns[name]
        t = code[name]
        cases = [(spec_term(cnd, names) if cnd else None, spec_term(val, names)) for cnd, val in spec["cases"]]
        swapped = substitute(t, {A: B, B: A})
        dual_t = None
        if spec.get("dual"):
            one_minus = lambda x: ("binop", "-", ("const", 1), x)  # noqa: E731
            inner = substitute(t, {A: one_minus(A), B: one_minus(B)})
            dual_t = one_minus(inner)
        two = Pieces(check, [A, B], [t, swapped] + [x for cs in cases for x in cs if x is not None] + ([dual_t, code[spec["dual"]]] if dual_t else []))
        n = len(two.items)
        if n == 0:
            raise AnalysisError(f"{name}: no order type enumerated")
        f_res, c_res, b_res, l2_res = [], [], [], []
        is_t = spec["kind"] == "T"
        for lf, ev, alg in two.items:
            where = describe(lf, two.short)
            v, d = compare_exact(t, None, lf, ev, alg, None, cases)
            f_res.append((v, where, f"compute(a,b) is {d.split(' vs ')[0]}, documented {d.split(' vs ')[-1]}" if v == "different" else d))
            v, d = compare_exact(t, swapped, lf, ev, alg)
            c_res.append((v, where, f"compute(a,b) = {d.split(' vs ')[0]} but compute(b,a) = {d.split(' vs ')[-1]}" if v == "different" else d))
            # L2: identity / annihilator where b is 0 or 1
            bv = lf.val[B]
            if bv in (0, 1):
                ident = 1 if is_t else 0
                want = A if bv == ident else (ZERO_T if is_t else ONE_T)
                if spec.get("unbounded") and bv != ident:
                    pass
                else:
                    v, d = compare_exact(t, want, lf, ev, alg)
                    what = "identity" if bv == ident else "annihilator"
                    l2_res.append((v, where, f"{what}: compute(a,{bv}) is {d.split(' vs ')[0]}, not {'a' if bv == ident else int(not is_t)}" if v == "different" else d))
            # L3: bounds
            ref = ("call", ("global", "min" if is_t else "max"), (A, B), ())
            s1 = sign_of_difference(t, ref, lf, ev, alg)
            wrong = s1 == ("pos" if is_t else "neg")
            s2 = sign_of_difference(t, ZERO_T, lf, ev, alg) if is_t else (None if spec.get("unbounded") else sign_of_difference(t, ONE_T, lf, ev, alg))
            wrong2 = s2 == ("neg" if is_t else "pos")
            if wrong or wrong2:
                b_res.append(("different", where, ("the result exceeds min(a,b)" if is_t else "the result is below max(a,b)") if wrong else
                              ("the result is negative" if is_t else "the result exceeds 1")))
            elif s1 is None or (s2 is None and not spec.get("unbounded")):
                b_res.append(("undecided", where, "sign of the difference not determined"))
            else:
                b_res.append(("equal", where, ""))
        tally("F", f"{name}.compute/formula", f"{name}: compute(a,b) equals the documented formula", fn, f_res, n)
        tally("L1", f"{name}.compute/commutative", f"{name}: compute(a,b) == compute(b,a)", fn, c_res, n)
        tally("L2", f"{name}.compute/identity-annihilator", f"{name}: " + ("1 is the identity and 0 the annihilator" if is_t else "0 is the identity" + ("" if spec.get("unbounded") else " and 1 the annihilator")),
              fn, l2_res, len(l2_res))
        tally("L3", f"{name}.compute/bounds", f"{name}: " + ("0 <= result <= min(a,b)" if is_t else "max(a,b) <= result" + ("" if spec.get("unbounded") else " <= 1")), fn, b_res, n)
        if dual_t is not None:
            d_res = []
            for lf, ev, alg in two.items:
                v, d = compare_exact(code[spec["dual"]], dual_t, lf, ev, alg)
                d_res.append((v, describe(lf, two.short), f"{spec['dual']}(a,b) = {d.split(' vs ')[0]} but 1 - {name}(1-a,1-b) = {d.split(' vs ')[-1]}" if v == "different" else d))
            tally("L4", f"{name}~{spec['dual']}/dual", f"{spec['dual']}(a,b) == 1 - {name}(1-a, 1-b)", fn, d_res, n)
        # L5 monotone in the first operand (and, by commutativity, in the second)
        t2 = substitute(t, {A: A2})
        three = Pieces(check, [A, A2, B], [t, t2, ("cmp", ("<=",), (A, A2))])
        m_res = []
        for lf, ev, alg in three.items:
            if lf.val[A] > lf.val[A2]:
                continue
            s_ = sign_of_difference(t2, t, lf, ev, alg)
            where = describe(lf, three.short)
            m_res.append(("different", where, "compute(a2,b) < compute(a,b) although a <= a2") if s_ == "neg" else
                         (("undecided", where, "sign of compute(a2,b) - compute(a,b) not determined") if s_ is None else ("equal", where, "")))
        tally("L5", f"{name}.compute/monotone", f"{name}: a <= a2 implies compute(a,b) <= compute(a2,b)", fn, m_res, len(m_res))
        # L6 associative
        if not spec.get("not_associative"):
            left = substitute(t, {A: t, B: C})
            right = substitute(t, {B: substitute(t, {A: B, B: C})})
            tri = Pieces(check, [A, B, C], [left, right])
            a_res = []
            for lf, ev, alg in tri.items:
                v, d = compare_exact(left, right, lf, ev, alg)
                a_res.append((v, describe(lf, tri.short), f"(a*b)*c = {d.split(' vs ')[0]} but a*(b*c) = {d.split(' vs ')[-1]}" if v == "different" else d))
            tally("L6", f"{name}.compute/associative", f"{name}: compute(compute(a,b),c) == compute(a,compute(b,c))", fn, a_res, len(a_res))
    check.exhaustive_parts.append("order types of the operands against 0, 1 and the compared linear forms")
