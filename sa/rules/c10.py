"""C10 - Weighted defuzzifiers compute the grouped weighted average / sum (structural clauses)."""

from __future__ import annotations

import ast
import itertools

from ..absint import FINITE, NAN, NEG, NINF, NUM, PINF, POS, ZERO, Abs, Evaluator, return_term, show_abs
from ..guards import RoleEval, paths
from ..pm import AnalysisError, unparse
from ..report import Check
from ..sym import PathResolver, Resolver, Term, path_of, show, walk
from . import c13
from .common import const_value, early_exits, is_path, iter_base, loc, loops_over, strip

EXPLANATION = (
    "static analysis of Aggregated.grouped_terms, WeightedDefuzzifier.infer_type and the two weighted defuzzifiers: "
    "grouping key / default aggregation / combination of repeated terms / no aliasing of stored activations; the two "
    "defuzzify() siblings are normalised and compared (same iteration, weight, value, accumulation; only the final "
    "expression differs); the Tsukamoto inverse is selected iff the resolved type is Tsukamoto; infer_type's decision "
    "table by path-sensitive abstract interpretation; and for every monotonic term tsukamoto(0) is interpreted over "
    "the extended-sign domain (height > 0, slopes non-zero, other parameters finite) and pushed through the "
    "accumulation expression with weight 0: the contribution must be exactly {zero}; with no activations or all "
    "weights zero the result must be exactly {nan}; the same with the term value at 0 being anything (finite, infinite, NaN) on every "
    "branch of the kind selection (conditions that are not about numbers fork the interpreter)"
)
ASSUMPTIONS = [
    "parameter classes from the property's preconditions: height in (0,1], slopes non-zero, other parameters finite",
    "the weighted-average value and its bounds between constants are numeric and not decided",
]
FLOORS = {"W-grp": 3, "H6": 2, "S3": 5, "T-inf": 5, "A2": 12, "A3": 4}

SELF = ("param", "self")
SLOPES = {"slope"}


def run(check: Check) -> None:
    grouping(check)
    c13.ownership(check)
    facts = {name: defuzzifier_facts(check, name) for name in ("WeightedAverage", "WeightedSum")}
    siblings(check, facts)
    infer_type_table(check)
    zero_weight(check, facts)
    empty_or_zero(check, facts)
    from .common import memoisation_rule

    memoisation_rule(check)
    check.exhaustive_parts += ["tsukamoto(0) x accumulation for every monotonic term", "infer_type decision table"]


# ------------------------------------------------------------------------------------------------ W-grp
def grouping(check: Check) -> None:
    p = check.program
    fn = p.func("Aggregated.grouped_terms")
    check.analysed(fn)
    r = Resolver(p, fn)
    cfg = r.cfg
    # default aggregation
    aggs = [n for n in cfg.stmt_nodes() if isinstance(n.ast, ast.Assign) and isinstance(n.ast.targets[0], ast.Name)]
    agg_t = None
    for n, c in cfg.find_calls(".compute"):
        agg_t = r.term(c.func.value, n)  # type: ignore[union-attr]
        comp = r.term(c, n)
        cn = n
    if agg_t is None:
        check.violation("W-grp", "Aggregated.grouped_terms/combine", "repeated terms are never combined", loc(fn))
        return
    ok = agg_t[0] == "bool" and agg_t[1] == "or" and path_of(agg_t[2][0]) == "self.aggregation" and \
        agg_t[2][1] == ("call", ("global", "fuzzylite.norm.UnboundedSum"), (), ())
    check.require(ok, "W-grp", "Aggregated.grouped_terms/default-aggregation",
                  "degrees of a repeated term are combined with the output's aggregation operator, or a plain sum when there is none" if ok else
                  f"combination operator is {show(agg_t)}", loc(fn, cn))
    a, b = comp[2] if len(comp[2]) == 2 else (("const", None), ("const", None))
    old_new = a[0] == "attr" and a[2] == "degree" and b[0] == "attr" and b[2] == "degree" and a[1] != b[1] and \
        any(s[0] == "elem" for s in walk(b)) ^ any(s[0] == "elem" for s in walk(a)) or (a[0] == "attr" and b[0] == "attr" and a[1] != b[1])
    check.require(bool(old_new), "W-grp", "Aggregated.grouped_terms/combine", "the group's degree is combined with the repeated activation's degree"
                  if old_new else f"combines {show(a)} with {show(b)}", loc(fn, cn))
    gl = [h_ for h_ in cfg.loop_heads() if h_.kind == "for"]
    ee = [x for h_ in gl for x in early_exits(cfg, h_)]
    check.require(bool(gl) and not ee, "W-grp", "Aggregated.grouped_terms/all-activations", "every activation of the fuzzy output is grouped" if gl and not ee else
                  "the grouping loop is left early", loc(fn, ee[0] if ee else fn.node))
    # membership test and store use the same key
    tests = [r.term(n.ast, n) for n in cfg.stmt_nodes() if n.kind == "test"]
    keys_tested = [t[2][0] for t in tests if t[0] == "cmp" and t[1][0] in ("not in", "in")]
    stores = [r.term(t.slice, n) for n in cfg.stmt_nodes() for t in cfg.stores_at(n) if isinstance(t, ast.Subscript)]
    ok = bool(keys_tested) and bool(stores) and all(k == stores[0] for k in keys_tested + stores)
    check.require(ok, "W-grp", "Aggregated.grouped_terms/same-key", "membership test, store and lookup use the same key (the term's name)" if ok else
                  f"tested keys {[show(k) for k in keys_tested]} vs stored keys {[show(k) for k in stores]}", loc(fn))


# ------------------------------------------------------------------------------------------------ defuzzify facts
def defuzzifier_facts(check: Check, cname: str) -> dict:
    p = check.program
    c = p.cls(cname)
    fn = c.methods.get("defuzzify")
    if fn is None:
        raise AnalysisError(f"anchor vanished: {cname}.defuzzify")
    check.analysed(fn)
    r = Resolver(p, fn)
    cfg = r.cfg
    loops = [h for h in cfg.loop_heads() if h.kind == "for"]
    if len(loops) != 1:
        raise AnalysisError(f"{cname}.defuzzify: expected one loop over the grouped terms")
    h = loops[0]
    it = [q for q, _ in h.pred if q.kind == "iter"][0]
    iter_t = iter_base(r.term(h.ast.iter, it))[0]  # type: ignore[union-attr]
    if iter_t[0] == "call" and iter_t[1][0] == "attr" and iter_t[1][2] == "grouped_terms":
        # `for name in groups: groups[name]` ranges over the same activations as `for activated in groups.values()`
        iter_t = ("call", ("attr", iter_t, "values"), (), ())
    body = cfg.loop_body(h)
    elem = ("elem", iter_t)
    # accumulators: names with a loop-carried definition
    carried = {}
    for name, node, d in cfg.carried_uses(h):
        carried.setdefault(name, d)
    accs = {}
    for name, d in carried.items():
        t = r._def_term(d)
        # increment = the part added to the carried value
        inc = None
        if t[0] == "binop" and t[1] == "+":
            l, rr = t[2], t[3]
            if _is_acc(l, name):
                inc = rr
            elif _is_acc(rr, name):
                inc = l
        accs[name] = {"def": d, "term": t, "inc": _canon(inc, iter_t) if inc is not None else None}
    rets = [n for n in cfg.stmt_nodes() if isinstance(n.ast, ast.Return) and n.ast.value is not None]
    ret_t = r.term(rets[-1].ast.value, rets[-1]) if rets else None  # type: ignore[union-attr]
    ee = early_exits(cfg, h)
    check.require(not ee, "S3", f"{cname}.defuzzify/all-terms", "every grouped activation contributes (the loop is never left early)" if not ee else
                  f"the loop over the activations is left early at line {ee[0].lineno}", loc(fn, ee[0] if ee else h))
    return {"fn": fn, "r": r, "cfg": cfg, "head": h, "iter": iter_t, "elem": elem, "accs": accs, "ret": ret_t, "retnode": rets[-1] if rets else None}


def _canon(t: Term, iter_t: Term) -> Term:
    """Operands of commutative operators sorted; elements of list(X) / enumerate(X) / X are the elements of X."""
    from ..npcanon import sort_commutative as normalize

    def rec(x):  # type: ignore[no-untyped-def]
        if isinstance(x, tuple) and x and x[0] == "elem" and len(x) == 2:
            return ("elem", iter_base(rec(x[1]))[0]) if iter_base(rec(x[1]))[0] != iter_t[1][1] or iter_t[1][2] != "values" else ("elem", iter_t)
        if isinstance(x, tuple):
            return tuple(rec(y) for y in x)
        if isinstance(x, frozenset):
            return frozenset(rec(y) for y in x)
        return x

    return normalize(rec(t))


def _is_acc(t: Term, name: str) -> bool:
    if t == ("carried", name):
        return True
    if t[0] == "phi":
        return any(a == ("carried", name) for a in t[1])
    return False


def _w_z(facts: dict):
    """Identify the weight accumulator (increment = w) and the weighted-sum accumulator (increment involves w and z)."""
    elem = facts["elem"]
    w = ("attr", elem, "degree")
    wname = zname = None
    for name, a in facts["accs"].items():
        inc = a["inc"]
        if inc is None:
            continue
        if inc == w:
            wname = name
        elif any(s == w for s in walk(inc)):
            zname = name
    return w, wname, zname


def siblings(check: Check, facts: dict) -> None:
    p = check.program
    fa, fs = facts["WeightedAverage"], facts["WeightedSum"]
    for key, what in (("iter", "iterate over self grouped terms"),):
        same = fa[key] == fs[key]
        good = fa[key][0] == "call" and fa[key][1][0] == "attr" and fa[key][1][2] == "values" and \
            any(s[0] == "call" and s[1][0] == "attr" and s[1][2] == "grouped_terms" for s in walk(fa[key]))
        check.require(same and good, "S3", "WeightedAverage~WeightedSum/iteration",
                      "both defuzzifiers iterate over the grouped activations of the fuzzy output" if same and good else
                      f"WeightedAverage iterates {show(fa[key])}, WeightedSum iterates {show(fs[key])}", loc(fa["fn"], fa["head"]))
    infos = {}
    for name, f in facts.items():
        w, wname, zname = _w_z(f)
        infos[name] = (w, wname, zname)
        ok = wname is not None and zname is not None
        check.require(ok, "S3", f"{name}.defuzzify/accumulators",
                      "the loop accumulates the weights (w = activated.degree) and the weighted values" if ok else
                      f"accumulators not recognised: {[(k, show(v['inc']) if v['inc'] else None) for k, v in f['accs'].items()]}", loc(f["fn"], f["head"]))
    if all(i[1] and i[2] for i in infos.values()):
        inc_a = fa["accs"][infos["WeightedAverage"][2]]["inc"]
        inc_s = fs["accs"][infos["WeightedSum"][2]]["inc"]
        check.require(inc_a == inc_s, "S3", "WeightedAverage~WeightedSum/contribution",
                      "both defuzzifiers add the same contribution per activated term" if inc_a == inc_s else
                      f"WeightedAverage adds {show(inc_a)[:120]} but WeightedSum adds {show(inc_s)[:120]}", loc(fs["fn"], fs["head"]))
        # z is computed from w with the selected method of the activated term
        for name, f in facts.items():
            w = infos[name][0]
            inc = f["accs"][infos[name][2]]["inc"]
            zcalls = [s for s in walk(inc) if s[0] == "call" and s[2] == (w,) and s[1][0] == "call" and s[1][1][0] == "attr" and s[1][1][2] == "__getattribute__"]
            zcalls += [s for s in walk(inc) if s[0] == "call" and s[2] == (w,) and s[1][0] == "call" and s[1][1] == ("global", "getattr")]
            ok = False
            why = f"contribution is {show(inc)[:140]}"
            if zcalls:
                sel = zcalls[0][1]
                recv = sel[1][1] if sel[1][0] == "attr" else sel[2][0]
                meth = sel[2][0] if sel[1][0] == "attr" else sel[2][1]
                on_term = recv == ("attr", f["elem"], "term")
                selects = meth[0] == "ifexp" and any(s == ("global", "fuzzylite.defuzzifier.WeightedDefuzzifier.Type.Tsukamoto") for s in walk(meth[1])) and \
                    any(s == ("global", "fuzzylite.term.Term.tsukamoto") for s in walk(meth[2])) and any(s == ("global", "fuzzylite.term.Term.membership") for s in walk(meth[3])) and \
                    meth[1][0] == "cmp" and meth[1][1] == ("==",)
                ok = on_term and selects
                why = f"value selector is {show(meth)[:140]} on {show(recv)}"
                # the compared type: self.type, replaced by infer_type(fuzzy output) when Automatic
                tcmp = [x for x in meth[1][2] if x != ("global", "fuzzylite.defuzzifier.WeightedDefuzzifier.Type.Tsukamoto")] if meth[0] == "ifexp" else []
                if ok and tcmp:
                    tt = tcmp[0]
                    AUTO = ("global", "fuzzylite.defuzzifier.WeightedDefuzzifier.Type.Automatic")
                    ok = False
                    if tt[0] == "ifexp" and tt[1][0] == "cmp" and set(tt[1][2]) == {("attr", SELF, "type"), AUTO}:
                        inferred, explicit = (tt[2], tt[3]) if tt[1][1] == ("==",) else ((tt[3], tt[2]) if tt[1][1] == ("!=",) else (None, None))
                        ok = explicit is not None and path_of(explicit) == "self.type" and inferred[0] == "call" and inferred[1][0] == "attr" and \
                            inferred[1][2] == "infer_type" and inferred[2] == (("param", f["fn"].params[1].name),)
                    why = f"type used for the selection is {show(tt)[:160]} (expected: the explicit type, or infer_type(fuzzy output) iff the type is Automatic)"
            check.require(ok, "S3", f"{name}.defuzzify/value",
                          "z = term.tsukamoto(w) iff the resolved type (explicit, or inferred when Automatic) is Tsukamoto, else term.membership(w)" if ok else why,
                          loc(f["fn"], f["head"]))


# ------------------------------------------------------------------------------------------------ T-inf
def infer_type_table(check: Check) -> None:
    p = check.program
    fn = p.func("WeightedDefuzzifier.infer_type")
    check.analysed(fn)
    r = Resolver(p, fn)
    cfg = r.cfg
    comp = fn.params[1].name
    COMP = ("param", comp)

    def classify(t: Term, e):
        if t[0] == "call" and t[1] == ("global", "isinstance") and len(t[2]) == 2 and t[2][0] == COMP:
            names = {x[1].split(".")[-1] for x in walk(t[2][1]) if x[0] == "global"}
            if names == {"Aggregated", "Variable"}:
                return "is_collection"
            if names == {"Activated"}:
                return "is_activated"
            if names == {"Constant", "Linear", "Function"}:
                return "is_ts_term"
            return None
        if t == ("call", ("attr", COMP, "is_monotonic"), (), ()):
            return "monotonic"
        if t[0] == "call" and t[1] == ("global", "len") and len(t[2]) == 1 and t[2][0][0] == "opaque" and t[2][0][1] == "SetComp":
            return "ntypes"
        if t[0] == "opaque" and t[1] == "SetComp":
            return "ntypes"  # truthiness of the set of kinds
        return None

    def outcome(env) -> list[str]:
        ev = RoleEval(r, classify)
        base = {"is_collection": False, "is_activated": False, "is_ts_term": False, "monotonic": False, "ntypes": 2}
        base.update(env)
        outs = []
        first = [s for s, _ in cfg.entry.succ][0]
        for pa in paths(cfg, first, ev, base, set(), skip_loops=True):
            if pa[-1].kind == "raise_exit":
                rs = [x for x in pa if isinstance(x.ast, ast.Raise)]
                outs.append("raise:" + (unparse(rs[-1].ast.exc.func) if rs and isinstance(rs[-1].ast.exc, ast.Call) else "?"))
            else:
                end = [x for x in pa if isinstance(x.ast, ast.Return)][-1]
                pr = PathResolver(p, fn, pa)
                t = pr.at(end.ast.value, pr.index_of(end))
                if t[0] == "global":
                    outs.append(t[1].split(".")[-1])
                elif t[0] == "call" and t[1][0] == "attr" and t[1][2] == "infer_type":
                    outs.append("recurse:" + show(t[2][0]))
                elif t[0] == "call" and t[1][0] == "attr" and t[1][2] == "pop":
                    outs.append("the-single-type")
                else:
                    outs.append(show(t))
        if ev.unknown_atoms:
            outs.append("unclassified:" + ";".join(sorted(set(ev.unknown_atoms))[:2]))
        return sorted(set(outs))

    table = [
        ("constant-linear-function", {"is_ts_term": True}, ["TakagiSugeno"]),
        ("monotonic", {"monotonic": True}, ["Tsukamoto"]),
        ("other", {}, ["Automatic"]),
        ("activated", {"is_activated": True}, [f"recurse:{comp}.term"]),
        ("collection-one-type", {"is_collection": True, "ntypes": 1}, ["the-single-type"]),
        ("collection-empty", {"is_collection": True, "ntypes": 0}, ["Automatic"]),
        ("collection-mixed", {"is_collection": True, "ntypes": 2}, ["raise:TypeError"]),
        ("collection-mixed-3", {"is_collection": True, "ntypes": 3}, ["raise:TypeError"]),
    ]
    for name, env, want in table:
        got = outcome(env)
        check.require(got == want, "T-inf", f"WeightedDefuzzifier.infer_type/{name}", f"{name} -> {want[0]}" if got == want else
                      f"{name}: inferred {got}, specified {want}", loc(fn), exhaustive=True, cases=1)


# ------------------------------------------------------------------------------------------------ A2
def term_env(cls_name: str, yname: str, yval: Abs):
    def env(t: Term):
        if t == ("param", yname):
            return yval
        if t[0] == "attr" and t[1] == ("param", "self"):
            if t[2] == "height":
                return Abs({POS})
            if t[2] in SLOPES:
                return Abs({NEG, POS})
            return Abs(FINITE)
        return None
    return env


def zero_weight(check: Check, facts: dict) -> None:
    p = check.program
    base = p.cls("Term")
    mono = [c for c in p.subclasses("Term") if c.lookup("tsukamoto") is not None and c.lookup("tsukamoto").cls is not base]
    if len(mono) < 6:
        raise AnalysisError("monotonic terms not found")
    for dname, f in facts.items():
        w, wname, zname = _w_z(f)
        if not zname:
            continue
        inc = f["accs"][zname]["inc"]
        # whatever the term's value at 0 is (a Function term may evaluate to +-inf or NaN there), for every kind of defuzzifier
        top = Abs({NAN, NINF, NEG, ZERO, POS, PINF})

        def env_any(t: Term, w=w):
            if t == w:
                return Abs({ZERO})
            if t[0] == "call" and t[2] == (w,) and t[1][0] == "call":
                return top
            return None

        contrib = Evaluator(p, env_any).ev(inc)
        ok = contrib == Abs({ZERO})
        check.require(ok, "A2", f"{dname}.defuzzify/any-term",
                      f"contribution of a zero-degree activation whose term value is anything (finite, +-inf, NaN) = {show_abs(contrib)}" +
                      ("" if ok else ": an activation with degree 0 changes the result for some kind of term / defuzzifier type (0 x inf = NaN)"),
                      loc(f["fn"], f["head"]), {"contribution": show_abs(contrib), "expression": show(inc)[:160]}, exhaustive=True, cases=1)
        for c in mono:
            ts = c.lookup("tsukamoto")
            check.analysed(ts)
            y = ts.params[1].name
            z0 = Evaluator(p, term_env(c.name, y, Abs({ZERO}))).ev(return_term(p, c, "tsukamoto"))

            def env(t: Term, z0=z0, w=w):
                if t == w:
                    return Abs({ZERO})
                if t[0] == "call" and t[2] == (w,) and t[1][0] == "call":
                    return z0  # z = selected method applied to w
                return None

            contrib = Evaluator(p, env).ev(inc)
            ok = contrib == Abs({ZERO})
            check.require(ok, "A2", f"{dname}.defuzzify/{c.name}",
                          f"{c.name}: tsukamoto(0) = {show_abs(z0)}, contribution of a zero-degree activation = {show_abs(contrib)}" +
                          ("" if ok else ": an activation with degree 0 changes the result (0 x inf = NaN poisons the sums)"),
                          loc(f["fn"], f["head"]), {"tsukamoto(0)": show_abs(z0), "contribution": show_abs(contrib), "expression": show(inc)[:160]},
                          exhaustive=True, cases=1)


def empty_or_zero(check: Check, facts: dict) -> None:
    """A3: no activations, or all weights zero => NaN; weights accumulate w."""
    p = check.program
    for dname, f in facts.items():
        w, wname, zname = _w_z(f)
        if not (wname and zname) or f["ret"] is None:
            continue
        r, cfg = f["r"], f["cfg"]
        # seeds
        seeds = {}
        for name in (wname, zname):
            it = [q for q, _ in f["head"].pred if q.kind == "iter"][0]
            ds = cfg.defs_reaching(name, it)
            seeds[name] = [r.term(d.value, d.node) for d in ds if d.value is not None]
        itn = [q for q, _ in f["head"].pred if q.kind == "iter"][0]
        zs = r.name_term(zname, itn)
        ws = r.name_term(wname, itn)
        seed_ok = const_value(ws) == 0
        s = strip(zs)
        isnan_ = lambda v: isinstance(v, float) and v != v  # noqa: E731
        empty_nan = s[0] == "ifexp" and path_of(s[1]) is not None and s[1][2] == "terms" and const_value(s[2]) == 0 and isnan_(const_value(s[3]))
        if s[0] == "ifexp" and s[1][0] == "unop" and s[1][1] == "not" and path_of(s[1][2]) is not None and s[1][2][2] == "terms":
            empty_nan = const_value(s[3]) == 0 and isnan_(const_value(s[2]))
        check.require(seed_ok and empty_nan, "A3", f"{dname}.defuzzify/seeds",
                      "sums start at 0, and at NaN when the fuzzy output has no activations" if seed_ok and empty_nan else
                      f"seeds: weights={show(ws) if ws else None}, values={show(zs) if zs else None}", loc(f["fn"]))

        # abstract result when every weight is zero (and contributions are zero)
        def env(t: Term, zname=zname, wname=wname, f=f):
            if t[0] == "phi" and any(a == ("carried", zname) or (a[0] == "binop" and any(s == ("carried", zname) for s in walk(a))) for a in t[1]):
                return Abs({ZERO})
            if t[0] == "phi" and any(a == ("carried", wname) or (a[0] == "binop" and any(s == ("carried", wname) for s in walk(a))) for a in t[1]):
                return Abs({ZERO})
            return None

        try:
            res = Evaluator(p, env).ev(f["ret"])
        except AnalysisError as ex:
            raise AnalysisError(f"{dname}.defuzzify: result expression not understood ({ex})") from None
        ok = res == Abs({NAN})
        check.require(ok, "A3", f"{dname}.defuzzify/all-zero", f"with all weights zero the result is {show_abs(res)}" +
                      ("" if ok else " (specified: NaN)"), loc(f["fn"], f["retnode"]), {"expression": show(f["ret"])[:200]}, exhaustive=True, cases=1)
