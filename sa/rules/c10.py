"""C10 - Weighted defuzzifiers compute the grouped weighted average / sum.

The two defuzzify methods are interpreted on model fuzzy outputs with symbolic degrees and term values (sa/rules/weighted_sem.py); grouping, the
ownership of the grouped activations and the decision table of infer_type are decided on their own code.
"""

from __future__ import annotations

import ast

from ..guards import RoleEval, paths
from ..pm import unparse
from ..report import Check
from ..sym import PathResolver, Resolver, Term, path_of, show, walk
from . import c13
from .common import early_exits, loc

EXPLANATION = (
    "static analysis of Aggregated.grouped_terms, WeightedDefuzzifier.infer_type and the two weighted defuzzifiers: "
    "grouping key / default aggregation / combination of repeated terms / no aliasing of stored activations; the two defuzzify() methods are "
    "interpreted abstractly on model fuzzy outputs of 0-3 groups (the first made of two raw activations) with symbolic degrees w_i, uninterpreted "
    "term values membership(t, w) / tsukamoto(t, w) and uninterpreted numpy, for every fixed / inferred kind; the symbolic result is evaluated for "
    "every choice of which degrees are zero to a rational-function normal form (np.where picks its branch, a zero divisor is NaN, the value of a "
    "term at degree 0 may be infinite) and compared with sum(w*z)/sum(w) resp. sum(w*z) over the non-zero degrees, NaN when there is none (W-sem); "
    "infer_type's decision table by path-sensitive abstract interpretation"
    "; P10 - Aggregated.activation_degree(term) is the grouped degree of the term of that name; tests on symbolic degrees are explored per zero pattern"
)
ASSUMPTIONS = [
    "parameter classes from the property's preconditions: height in (0,1], slopes non-zero, other parameters finite",
    "the weighted-average value and its bounds between constants are numeric and not decided",
]
FLOORS = {"W-grp": 3, "H6": 2, "W-sem": 12, "T-inf": 5}

SELF = ("param", "self")
SLOPES = {"slope"}


def run(check: Check) -> None:
    grouping(check)
    c13.ownership(check)
    from .weighted_sem import weighted_semantics

    # the two defuzzify methods are decided by interpretation on model fuzzy outputs with symbolic degrees and values (sa/rules/weighted_sem.py); the
    # rules of earlier rounds that recognised the loop, its accumulators, the value selector and the seeds (S3, A2, A3) are subsumed and were removed
    weighted_semantics(check)
    from . import wiring

    wiring.p10_activation_degree_lookup(check)  # Aggregated.activation_degree(term): the grouped degree of the term of that name
    wiring.engine_configure_semantics(check, kinds=("defuzzifier", "aggregation"))  # "unless fixed explicitly": also when fixed through Engine.configure
    infer_type_table(check)
    from .common import memoisation_rule

    memoisation_rule(check)
    check.exhaustive_parts += ["tsukamoto(0) x accumulation for every monotonic term", "infer_type decision table"]


# ------------------------------------------------------------------------------------------------ W-grp
def grouping(check: Check) -> None:
    p = check.program
    fn = p.func("Aggregated.grouped_terms")
    check.analysed(fn)
    r = Resolver(p, fn)
    cfg = r.cfg
    # default aggregation
    aggs = [n for n in cfg.stmt_nodes() if isinstance(n.ast, ast.Assign) and isinstance(n.ast.targets[0], ast.Name)]
    agg_t = None
    for n, c in cfg.find_calls(".compute"):
        agg_t = r.term(c.func.value, n)  # type: ignore[union-attr]
        comp = r.term(c, n)
        cn = n
    if agg_t is None:
        check.violation("W-grp", "Aggregated.grouped_terms/combine", "repeated terms are never combined", loc(fn))
        return
    ok = agg_t[0] == "bool" and agg_t[1] == "or" and path_of(agg_t[2][0]) == "self.aggregation" and \
        agg_t[2][1] == ("call", ("global", "fuzzylite.norm.UnboundedSum"), (), ())
    check.require(ok, "W-grp", "Aggregated.grouped_terms/default-aggregation",
                  "degrees of a repeated term are combined with the output's aggregation operator, or a plain sum when there is none" if ok else
                  f"combination operator is {show(agg_t)}", loc(fn, cn))
    a, b = comp[2] if len(comp[2]) == 2 else (("const", None), ("const", None))
    old_new = a[0] == "attr" and a[2] == "degree" and b[0] == "attr" and b[2] == "degree" and a[1] != b[1] and \
        any(s[0] == "elem" for s in walk(b)) ^ any(s[0] == "elem" for s in walk(a)) or (a[0] == "attr" and b[0] == "attr" and a[1] != b[1])
    check.require(bool(old_new), "W-grp", "Aggregated.grouped_terms/combine", "the group's degree is combined with the repeated activation's degree"
                  if old_new else f"combines {show(a)} with {show(b)}", loc(fn, cn))
    gl = [h_ for h_ in cfg.loop_heads() if h_.kind == "for"]
    ee = [x for h_ in gl for x in early_exits(cfg, h_)]
    check.require(bool(gl) and not ee, "W-grp", "Aggregated.grouped_terms/all-activations", "every activation of the fuzzy output is grouped" if gl and not ee else
                  "the grouping loop is left early", loc(fn, ee[0] if ee else fn.node))
    # membership test and store use the same key
    tests = [r.term(n.ast, n) for n in cfg.stmt_nodes() if n.kind == "test"]
    keys_tested = [t[2][0] for t in tests if t[0] == "cmp" and t[1][0] in ("not in", "in")]
    stores = [r.term(t.slice, n) for n in cfg.stmt_nodes() for t in cfg.stores_at(n) if isinstance(t, ast.Subscript)]
    ok = bool(keys_tested) and bool(stores) and all(k == stores[0] for k in keys_tested + stores)
    check.require(ok, "W-grp", "Aggregated.grouped_terms/same-key", "membership test, store and lookup use the same key (the term's name)" if ok else
                  f"tested keys {[show(k) for k in keys_tested]} vs stored keys {[show(k) for k in stores]}", loc(fn))


# ------------------------------------------------------------------------------------------------ defuzzify facts










# ------------------------------------------------------------------------------------------------ T-inf
def infer_type_table(check: Check) -> None:
    p = check.program
    fn = p.func("WeightedDefuzzifier.infer_type")
    check.analysed(fn)
    r = Resolver(p, fn)
    cfg = r.cfg
    comp = fn.params[1].name
    COMP = ("param", comp)

    def classify(t: Term, e):
        if t[0] == "call" and t[1] == ("global", "isinstance") and len(t[2]) == 2 and t[2][0] == COMP:
            names = {x[1].split(".")[-1] for x in walk(t[2][1]) if x[0] == "global"}
            if names == {"Aggregated", "Variable"}:
                return "is_collection"
            if names == {"Activated"}:
                return "is_activated"
            if names == {"Constant", "Linear", "Function"}:
                return "is_ts_term"
            return None
        if t == ("call", ("attr", COMP, "is_monotonic"), (), ()):
            return "monotonic"
        if t[0] == "call" and t[1] == ("global", "len") and len(t[2]) == 1 and t[2][0][0] == "opaque" and t[2][0][1] == "SetComp":
            return "ntypes"
        if t[0] == "opaque" and t[1] == "SetComp":
            return "ntypes"  # truthiness of the set of kinds
        return None

    def outcome(env) -> list[str]:
        ev = RoleEval(r, classify)
        base = {"is_collection": False, "is_activated": False, "is_ts_term": False, "monotonic": False, "ntypes": 2}
        base.update(env)
        outs = []
        first = [s for s, _ in cfg.entry.succ][0]
        for pa in paths(cfg, first, ev, base, set(), skip_loops=True):
            if pa[-1].kind == "raise_exit":
                rs = [x for x in pa if isinstance(x.ast, ast.Raise)]
                outs.append("raise:" + (unparse(rs[-1].ast.exc.func) if rs and isinstance(rs[-1].ast.exc, ast.Call) else "?"))
            else:
                end = [x for x in pa if isinstance(x.ast, ast.Return)][-1]
                pr = PathResolver(p, fn, pa)
                t = pr.at(end.ast.value, pr.index_of(end))
                if t[0] == "global":
                    outs.append(t[1].split(".")[-1])
                elif t[0] == "call" and t[1][0] == "attr" and t[1][2] == "infer_type":
                    outs.append("recurse:" + show(t[2][0]))
                elif t[0] == "call" and t[1][0] == "attr" and t[1][2] == "pop":
                    outs.append("the-single-type")
                else:
                    outs.append(show(t))
        if ev.unknown_atoms:
            outs.append("unclassified:" + ";".join(sorted(set(ev.unknown_atoms))[:2]))
        return sorted(set(outs))

    table = [
        ("constant-linear-function", {"is_ts_term": True}, ["TakagiSugeno"]),
        ("monotonic", {"monotonic": True}, ["Tsukamoto"]),
        ("other", {}, ["Automatic"]),
        ("activated", {"is_activated": True}, [f"recurse:{comp}.term"]),
        ("collection-one-type", {"is_collection": True, "ntypes": 1}, ["the-single-type"]),
        ("collection-empty", {"is_collection": True, "ntypes": 0}, ["Automatic"]),
        ("collection-mixed", {"is_collection": True, "ntypes": 2}, ["raise:TypeError"]),
        ("collection-mixed-3", {"is_collection": True, "ntypes": 3}, ["raise:TypeError"]),
    ]
    for name, env, want in table:
        got = outcome(env)
        check.require(got == want, "T-inf", f"WeightedDefuzzifier.infer_type/{name}", f"{name} -> {want[0]}" if got == want else
                      f"{name}: inferred {got}, specified {want}", loc(fn), exhaustive=True, cases=1)


# ------------------------------------------------------------------------------------------------ A2




