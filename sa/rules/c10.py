"""C10 - Weighted defuzzifiers compute the grouped weighted average / sum.

The two defuzzify methods are interpreted on model fuzzy outputs with symbolic degrees and term values (sa/rules/weighted_sem.py); grouping, the
ownership of the grouped activations and the decision table of infer_type are decided on their own code.
"""

from __future__ import annotations

import ast

from ..guards import RoleEval, paths
from ..pm import unparse
from ..report import Check
from ..sym import PathResolver, Resolver, Term, path_of, show, walk
from . import c13
from .common import early_exits, loc

EXPLANATION = (
    "static analysis of Aggregated.grouped_terms, WeightedDefuzzifier.infer_type and the two weighted defuzzifiers: "
    "grouping key / default aggregation / combination of repeated terms / no aliasing of stored activations; the two defuzzify() methods are "
    "interpreted abstractly on model fuzzy outputs of 0-3 groups (the first made of two raw activations) with symbolic degrees w_i, uninterpreted "
    "term values membership(t, w) / tsukamoto(t, w) and uninterpreted numpy, for every fixed / inferred kind; the symbolic result is evaluated for "
    "every choice of which degrees are zero to a rational-function normal form (np.where picks its branch, a zero divisor is NaN, the value of a "
    "term at degree 0 may be infinite) and compared with sum(w*z)/sum(w) resp. sum(w*z) over the non-zero degrees, NaN when there is none (W-sem); "
    "infer_type's decision table by path-sensitive abstract interpretation"
    "; P10 - Aggregated.activation_degree(term) is the grouped degree of the term of that name; tests on symbolic degrees are explored per zero pattern"
)
ASSUMPTIONS = [
    "parameter classes from the property's preconditions: height in (0,1], slopes non-zero, other parameters finite",
    "the weighted-average value and its bounds between constants are numeric and not decided",
]
FLOORS = {"W-grp": 3, "H6": 2, "W-sem": 12, "T-inf": 5}

SELF = ("param", "self")
SLOPES = {"slope"}


def run(check: Check) -> None:
    grouping(check)
    c13.ownership(check)
    from .weighted_sem import weighted_semantics

    # the two defuzzify methods are decided by interpretation on model fuzzy outputs with symbolic degrees and values (sa/rules/weighted_sem.py); the
    # rules of earlier rounds that recognised the loop, its accumulators, the value selector and the seeds (S3, A2, A3) are subsumed and were removed
    weighted_semantics(check)
    from . import wiring

    wiring.p10_activation_degree_lookup(check)  # Aggregated.activation_degree(term): the grouped degree of the term of that name
    wiring.engine_configure_semantics(check, kinds=("defuzzifier", "aggregation"))  # "unless fixed explicitly": also when fixed through Engine.configure
    infer_type_table(check)
    from .common import memoisation_rule

    memoisation_rule(check)
    check.exhaustive_parts += ["tsukamoto(0) x accumulation for every monotonic term", "infer_type decision table"]


# ------------------------------------------------------------------------------------------------ W-grp
def grouping(check: Check) -> None:
    """By interpretation (AG-sem, sa/rules/aggregated_sem.py); the shape rule below is the fallback."""
    from .aggregated_sem import aggregated_semantics

    if "W-grp" in aggregated_semantics(check, ("W-grp",)):
        return
    p = check.program
    fn = p.func("Aggregated.grouped_terms")
    check.analysed(fn)
    r = Resolver(p, fn)
    cfg = r.cfg
    # default aggregation
    aggs = [n for n in cfg.stmt_nodes() if isinstance(n.ast, ast.Assign) and isinstance(n.ast.targets[0], ast.Name)]
    agg_t = None
    for n, c in cfg.find_calls(".compute"):
        agg_t = r.term(c.func.value, n)  # type: ignore[union-attr]
        comp = r.term(c, n)
        cn = n
    if agg_t is None:
        check.violation("W-grp", "Aggregated.grouped_terms/combine", "repeated terms are never combined", loc(fn))
        return
    ok = agg_t[0] == "bool" and agg_t[1] == "or" and path_of(agg_t[2][0]) == "self.aggregation" and \
        agg_t[2][1] == ("call", ("global", "fuzzylite.norm.UnboundedSum"), (), ())
    check.require(ok, "W-grp", "Aggregated.grouped_terms/default-aggregation",
                  "degrees of a repeated term are combined with the output's aggregation operator, or a plain sum when there is none" if ok else
                  f"combination operator is {show(agg_t)}", loc(fn, cn))
    a, b = comp[2] if len(comp[2]) == 2 else (("const", None), ("const", None))
    old_new = a[0] == "attr" and a[2] == "degree" and b[0] == "attr" and b[2] == "degree" and a[1] != b[1] and \
        any(s[0] == "elem" for s in walk(b)) ^ any(s[0] == "elem" for s in walk(a)) or (a[0] == "attr" and b[0] == "attr" and a[1] != b[1])
    check.require(bool(old_new), "W-grp", "Aggregated.grouped_terms/combine", "the group's degree is combined with the repeated activation's degree"
                  if old_new else f"combines {show(a)} with {show(b)}", loc(fn, cn))
    gl = [h_ for h_ in cfg.loop_heads() if h_.kind == "for"]
    ee = [x for h_ in gl for x in early_exits(cfg, h_)]
    check.require(bool(gl) and not ee, "W-grp", "Aggregated.grouped_terms/all-activations", "every activation of the fuzzy output is grouped" if gl and not ee else
                  "the grouping loop is left early", loc(fn, ee[0] if ee else fn.node))
    # membership test and store use the same key
    tests = [r.term(n.ast, n) for n in cfg.stmt_nodes() if n.kind == "test"]
    keys_tested = [t[2][0] for t in tests if t[0] == "cmp" and t[1][0] in ("not in", "in")]
    stores = [r.term(t.slice, n) for n in cfg.stmt_nodes() for t in cfg.stores_at(n) if isinstance(t, ast.Subscript)]
    ok = bool(keys_tested) and bool(stores) and all(k == stores[0] for k in keys_tested + stores)
    check.require(ok, "W-grp", "Aggregated.grouped_terms/same-key", "membership test, store and lookup use the same key (the term's name)" if ok else
                  f"tested keys {[show(k) for k in keys_tested]} vs stored keys {[show(k) for k in stores]}", loc(fn))


# ------------------------------------------------------------------------------------------------ defuzzify facts










# ------------------------------------------------------------------------------------------------ T-inf
def infer_type_table(check: Check) -> None:
    """T-inf, by interpretation where the interpreter can follow `infer_type` (the path rule below is the fallback)."""
    if not infer_type_semantics(check):
        infer_type_paths(check)


def infer_type_semantics(check: Check, rule: str = "T-inf") -> bool:
    """`WeightedDefuzzifier.infer_type` interpreted (sa/objexec.py) on model components built through the real constructors: Constant / Linear / Function
    terms (Takagi-Sugeno), every monotonic term class (Tsukamoto), a non-monotonic one (Automatic), each also wrapped in an Activated term; fuzzy
    outputs and variables holding none, one kind, or several kinds of them (a TypeError for several). The statement's table, per component."""
    from ..absexec import Internal, MObj, Raised, Sym, Unknown
    from .roundtrip_sem import E0, Counter, make_component, new_exec

    p = check.program
    fn = p.func("WeightedDefuzzifier.infer_type")
    check.analysed(fn)
    bad: dict[str, str] = {}
    n = 0
    try:
        ex = new_exec(p)
        cnt = Counter()
        wd = p.cls("WeightedDefuzzifier")
        members = {m.fields["name"]: m for m in ex.members(p.cls("WeightedDefuzzifier.Type"))}
        from ..objexec import ClassV

        def kind_of(c) -> str:  # type: ignore[no-untyped-def]
            if c.name in ("Constant", "Linear", "Function"):
                return "TakagiSugeno"
            mono = c.lookup("tsukamoto") is not None and c.lookup("tsukamoto").cls is not None and c.lookup("tsukamoto").cls.name != "Term"
            return "Tsukamoto" if mono else "Automatic"

        terms = []
        for c in p.subclasses("Term", concrete_only=True):
            if c.outer is not None or c.name in ("Activated", "Aggregated", "Discrete"):
                continue
            t = make_component(ex, c, cnt, name=c.name)
            if t is not None:
                terms.append((c.name, t, kind_of(c)))

        def run(component, what: str, want: str, key: str) -> None:  # type: ignore[no-untyped-def]
            nonlocal n
            n += 1
            try:
                got = ex.invoke(fn, [ClassV(wd.qualname), component], {}, E0)
                got_s = got.fields.get("name") if isinstance(got, MObj) and got.fields.get("__enum__") else repr(got)
            except Raised as r_:
                got_s = "raise:" + r_.cls
            except Internal as i_:
                got_s = "internal:" + i_.cls
            if got_s != want:
                bad.setdefault(key, f"infer_type({what}) is {got_s}, specified {want}")

        by_kind: dict[str, list] = {}
        for name, t, kind in terms:
            by_kind.setdefault(kind, []).append(t)
            run(t, f"a {name} term", kind, {"TakagiSugeno": "takagi-sugeno", "Tsukamoto": "monotonic", "Automatic": "other"}[kind])
            act = ex.instantiate(p.cls("Activated"), [t, Sym("w")], {}, E0)
            run(act, f"an activated {name} term", kind, "activated")
        # terms defined outside the library: what decides is what the term declares (is_monotonic), not which library class it is
        for declares, kind in ((True, "Tsukamoto"), (False, "Automatic")):
            user = MObj(p.cls("Term").qualname, {"name": "user", "height": 1.0, "is_monotonic": (lambda ex_, e, args, kw, d=declares: d)})
            run(user, f"a term defined outside the library whose is_monotonic() is {declares}", kind, "monotonic" if declares else "other")
        ts, tk, au = by_kind.get("TakagiSugeno", []), by_kind.get("Tsukamoto", []), by_kind.get("Automatic", [])
        if not (ts and tk and au):
            raise Unknown("the three kinds of model terms could not be built")

        def fuzzy(items):  # type: ignore[no-untyped-def]
            return ex.instantiate(p.cls("Aggregated"), [], {"name": "out", "terms": [ex.instantiate(p.cls("Activated"), [t, Sym("w")], {}, E0) for t in items]}, E0)

        def variable(items):  # type: ignore[no-untyped-def]
            return ex.instantiate(p.cls("OutputVariable"), [], {"name": "v", "terms": list(items)}, E0)

        for build, label in ((fuzzy, "a fuzzy output activating"), (variable, "a variable with")):
            run(build([]), f"{label} nothing", "Automatic", "collection-empty")
            run(build(ts[:2]), f"{label} two Takagi-Sugeno terms", "TakagiSugeno", "collection-one-type")
            run(build(tk[:2]), f"{label} two monotonic terms", "Tsukamoto", "collection-one-type")
            run(build(au[:1]), f"{label} a non-monotonic term", "Automatic", "collection-one-type")
            run(build(ts[:1] + tk[:1]), f"{label} a Takagi-Sugeno and a monotonic term", "raise:TypeError", "collection-mixed")
            run(build(tk[:1] + au[:1] + tk[1:2]), f"{label} monotonic and non-monotonic terms", "raise:TypeError", "collection-mixed")
    except Unknown as u:
        check.notes.append(f"{rule}: infer_type is outside the interpreter's model ({u}); decided on the paths of the code")
        return False
    for key, good in (("takagi-sugeno", "Constant / Linear / Function terms are Takagi-Sugeno"), ("monotonic", "monotonic terms are Tsukamoto"), ("other", "other terms are Automatic"),
                      ("activated", "an activated term has the kind of its term"), ("collection-empty", "an empty fuzzy output / variable is Automatic"),
                      ("collection-one-type", "a fuzzy output / variable whose terms have one kind has that kind"), ("collection-mixed", "several kinds are a TypeError")):
        hit = bad.get(key)
        check.require(hit is None, rule, f"WeightedDefuzzifier.infer_type/{key}", f"{good} ({n} model components)" if hit is None else hit, loc(fn), exhaustive=True, cases=n)
    return True


def infer_type_paths(check: Check) -> None:
    p = check.program
    fn = p.func("WeightedDefuzzifier.infer_type")
    check.analysed(fn)
    r = Resolver(p, fn)
    cfg = r.cfg
    comp = fn.params[1].name
    COMP = ("param", comp)

    def classify(t: Term, e):
        if t[0] == "call" and t[1] == ("global", "isinstance") and len(t[2]) == 2 and t[2][0] == COMP:
            names = {x[1].split(".")[-1] for x in walk(t[2][1]) if x[0] == "global"}
            if names == {"Aggregated", "Variable"}:
                return "is_collection"
            if names == {"Activated"}:
                return "is_activated"
            if names == {"Constant", "Linear", "Function"}:
                return "is_ts_term"
            return None
        if t == ("call", ("attr", COMP, "is_monotonic"), (), ()):
            return "monotonic"
        if t[0] == "call" and t[1] == ("global", "len") and len(t[2]) == 1 and t[2][0][0] == "opaque" and t[2][0][1] == "SetComp":
            return "ntypes"
        if t[0] == "opaque" and t[1] == "SetComp":
            return "ntypes"  # truthiness of the set of kinds
        return None

    def outcome(env) -> list[str]:
        ev = RoleEval(r, classify)
        base = {"is_collection": False, "is_activated": False, "is_ts_term": False, "monotonic": False, "ntypes": 2}
        base.update(env)
        outs = []
        first = [s for s, _ in cfg.entry.succ][0]
        for pa in paths(cfg, first, ev, base, set(), skip_loops=True):
            if pa[-1].kind == "raise_exit":
                rs = [x for x in pa if isinstance(x.ast, ast.Raise)]
                outs.append("raise:" + (unparse(rs[-1].ast.exc.func) if rs and isinstance(rs[-1].ast.exc, ast.Call) else "?"))
            else:
                end = [x for x in pa if isinstance(x.ast, ast.Return)][-1]
                pr = PathResolver(p, fn, pa)
                t = pr.at(end.ast.value, pr.index_of(end))
                if t[0] == "global":
                    outs.append(t[1].split(".")[-1])
                elif t[0] == "call" and t[1][0] == "attr" and t[1][2] == "infer_type":
                    outs.append("recurse:" + show(t[2][0]))
                elif t[0] == "call" and t[1][0] == "attr" and t[1][2] == "pop":
                    outs.append("the-single-type")
                else:
                    outs.append(show(t))
        if ev.unknown_atoms:
            outs.append("unclassified:" + ";".join(sorted(set(ev.unknown_atoms))[:2]))
        return sorted(set(outs))

    table = [
        ("constant-linear-function", {"is_ts_term": True}, ["TakagiSugeno"]),
        ("monotonic", {"monotonic": True}, ["Tsukamoto"]),
        ("other", {}, ["Automatic"]),
        ("activated", {"is_activated": True}, [f"recurse:{comp}.term"]),
        ("collection-one-type", {"is_collection": True, "ntypes": 1}, ["the-single-type"]),
        ("collection-empty", {"is_collection": True, "ntypes": 0}, ["Automatic"]),
        ("collection-mixed", {"is_collection": True, "ntypes": 2}, ["raise:TypeError"]),
        ("collection-mixed-3", {"is_collection": True, "ntypes": 3}, ["raise:TypeError"]),
    ]
    for name, env, want in table:
        got = outcome(env)
        check.require(got == want, "T-inf", f"WeightedDefuzzifier.infer_type/{name}", f"{name} -> {want[0]}" if got == want else
                      f"{name}: inferred {got}, specified {want}", loc(fn), exhaustive=True, cases=1)


# ------------------------------------------------------------------------------------------------ A2




