"""C15 - Python export reconstructs an identical engine (constructor <-> representation tables)."""

from __future__ import annotations

import ast
import glob
import os

from ..cfg import cfg_of
from ..pm import AnalysisError, ClassInfo, FunctionInfo, unparse
from ..report import Check
from ..sym import Resolver, Term, path_of, show, walk
from .common import const_value, loc

EXPLANATION = (
    "static analysis of every __repr__ in the package, Representation (as_constructor, construction_arguments, "
    "package_of, import_statement, repr_float, repr_ndarray) and PythonExporter: for each representable class the "
    "constructor parameters are compared with the fields its representation emits (instance attributes through the "
    "super().__init__ chain, minus popped, plus explicitly supplied); every conditional elision must be guarded by "
    "'value equals the constructor default'; enum representations must match the constructor's lookup (by name / by "
    "value); hand-written representations take their prefix from package_of (no literal alias); import_statement and "
    "package_of split on the same alias cases; every class and inf/nan/array is exported through __all__ and the "
    "package's star imports; Engine.__init__ (through which the representation rebuilds the engine) re-points the terms of input and "
    "output variables; no engine component whose class defines __len__ (variables, rule blocks) is used as a truth value (R13); "
    "no setting is frozen in a default argument and Op.str / Op.is_close read decimals and tolerances when called (Y6, Y8); every parameter of the exporter / "
    "representation methods is read (R14); thorough tier checks the constructor calls of the 71 shipped example modules"
    "; PY-sem - repr(engine) is interpreted (sa/objexec.py: every __repr__, Representation.*, reprlib / inspect by their documented meaning) on model engines built through the real constructors and on one configured by assignment, the text is parsed and evaluated by interpreting the constructors in the namespace of the library's own import statement, for the aliases 'fl', '' and '*': the rebuilt engine equals the original field by field, represents itself identically and exports the same FuzzyLite Language text; R1-sem - every component constructor stores number, flag and text arguments as given, the edge values 0, 0.0, False and '' included"
)
ASSUMPTIONS = [
    "digit-exactness of builtins.repr(float), black formatting and string quoting are not decided",
    "classes wrapping callables (NormLambda, HedgeLambda) are not representable by design",
]
FLOORS = {"PY-sem": 4, "R1-sem": 30, "H8": 2, "Y6": 1, "Y8": 3, "R14": 1, "R13": 2, "H7": 2, "R11": 11, "R7": 16}

NOT_REPRESENTABLE = {"NormLambda": "wraps a Python callable", "HedgeLambda": "wraps a Python callable"}
DIRECTIVES = {("Engine", "load"), ("Function", "load"), ("Linear", "engine"), ("Function", "engine")}


def init_attrs(c: ClassInfo) -> set[str]:
    """Instance attributes assigned by the __init__ chain (own __init__ plus the ones it reaches through super())."""
    out: set[str] = set()
    seen: set[str] = set()

    def visit(k: ClassInfo) -> None:
        fn = k.methods.get("__init__")
        if fn is None:
            # inherited constructor
            for b in k.mro[1:]:
                if "__init__" in b.methods:
                    visit(b)
                    return
            return
        if fn.qualname in seen:
            return
        seen.add(fn.qualname)
        calls_super = False
        for x in ast.walk(fn.analysis_node):
            if isinstance(x, (ast.Assign, ast.AnnAssign, ast.AugAssign)):
                for t in (x.targets if isinstance(x, ast.Assign) else [x.target]):
                    for y in ast.walk(t):
                        if isinstance(y, ast.Attribute) and isinstance(y.value, ast.Name) and y.value.id == "self" and isinstance(y.ctx, ast.Store):
                            out.add(y.attr)
            if isinstance(x, ast.Call) and isinstance(x.func, ast.Attribute) and x.func.attr == "__init__" and \
                    isinstance(x.func.value, ast.Call) and isinstance(x.func.value.func, ast.Name) and x.func.value.func.id == "super":
                calls_super = True
        if calls_super:
            for b in k.mro[1:]:
                if "__init__" in b.methods:
                    visit(b)
                    break

    visit(c)
    return out


def property_backed(c: ClassInfo, attr: str) -> bool:
    """self.<attr> = ... in __init__ goes through a property setter (stored elsewhere, not in vars(self))."""
    return c.lookup_setter(attr) is not None


class ReprFacts:
    def __init__(self, check: Check, c: ClassInfo):
        p = check.program
        self.c = c
        self.fn = c.lookup("__repr__")
        self.kind = "none"
        self.popped_always: set[str] = set()
        self.popped_cond: list[tuple[str, ast.AST, bool, ast.AST]] = []  # (key, guard, polarity, node)
        self.guard_terms: dict[tuple[str, int], Term] = {}
        self.added: set[str] = set()
        self.explicit: set[str] | None = None
        self.renamed: dict[str, str] = {}
        self.positional = False
        if self.fn is None:
            return
        r = Resolver(p, self.fn)
        cfg = r.cfg
        rets = [n for n in cfg.stmt_nodes() if isinstance(n.ast, ast.Return) and n.ast.value is not None]
        if not rets:
            return
        call = rets[-1].ast.value
        t = r.term(call, rets[-1])
        # `code = representation.as_constructor(...); return code`: look through the temporary
        hops = 0
        while isinstance(call, ast.Name) and hops < 4:
            ds = [d for d in cfg.defs_reaching(call.id, rets[-1]) if d.value is not None]
            if len(ds) != 1:
                break
            call = ds[0].value
            hops += 1
        if not isinstance(call, ast.Call):
            self.kind = "custom"
            return
        if t[0] == "call" and t[1][0] == "attr" and t[1][2] == "as_constructor":
            self.kind = "as_constructor"
            kw = dict(t[3])
            self.positional = kw.get("positional") == ("const", True)
            fields_arg = call.args[1] if len(call.args) > 1 else next((k.value for k in call.keywords if k.arg == "fields"), None)
            if fields_arg is None:
                self.explicit = None  # vars(x)
            elif isinstance(fields_arg, ast.Name):
                fname = fields_arg.id
                # how is it built?
                for n in cfg.stmt_nodes():
                    a = n.ast
                    if isinstance(a, ast.Assign) and isinstance(a.targets[0], ast.Name) and a.targets[0].id == fname:
                        if isinstance(a.value, ast.Dict):
                            self.explicit = {k.value for k in a.value.keys if isinstance(k, ast.Constant)}
                    if isinstance(a, ast.Assign) and isinstance(a.targets[0], ast.Subscript) and isinstance(a.targets[0].value, ast.Name) and \
                            a.targets[0].value.id == fname and isinstance(a.targets[0].slice, ast.Constant):
                        key = a.targets[0].slice.value
                        self.added.add(key)
                        if isinstance(a.value, ast.Call) and isinstance(a.value.func, ast.Attribute) and a.value.func.attr == "pop" and a.value.args and \
                                isinstance(a.value.args[0], ast.Constant):
                            self.renamed[a.value.args[0].value] = key
                    removed = [c_.args[0].value for c_ in cfg.calls_in(n)
                               if isinstance(c_.func, ast.Attribute) and c_.func.attr == "pop" and isinstance(c_.func.value, ast.Name) and
                               c_.func.value.id == fname and c_.args and isinstance(c_.args[0], ast.Constant)]
                    if isinstance(a, ast.Delete):
                        removed += [tg.slice.value for tg in a.targets if isinstance(tg, ast.Subscript) and isinstance(tg.value, ast.Name) and
                                    tg.value.id == fname and isinstance(tg.slice, ast.Constant)]
                    for key in removed:
                        if True:
                            guards = cfg.must_guards(n)
                            if guards:
                                g, pol, gn = guards[-1]
                                self.popped_cond.append((key, g, pol, n))
                                self.guard_terms[(key, id(n))] = r.term(g, gn)
                            else:
                                self.popped_always.add(key)
        else:
            self.kind = "custom"


def run(check: Check) -> None:
    from .pyroundtrip_sem import constructor_fidelity, py_roundtrip

    # PY-sem: repr -> parse -> evaluate -> repr interpreted on model engines under the three alias settings, every component also on its own and
    # through PythonExporter(encapsulated=True). It decides what the table rules R1 / R2 (constructor parameter <-> emitted field, elision <-> default),
    # R5 / R8 (alias discipline), R6 (enum repr <-> lookup), R9 (encapsulated code) and R12 (who prints array elements) approximate; where every
    # model engine was decided those rules run no more - they are the fallback for code the interpreter cannot follow.
    decided = py_roundtrip(check)
    constructor_fidelity(check)  # R1-sem: what the constructors called by the representation store is what they are given
    if decided:
        # the representations the model engines never print (the fuzzy value of an output, an activated term, the settings) stay with the table rules R1 / R2
        done = getattr(check, "repr_interpreted", set())
        constructor_fields(check, skip=done)
        check.notes.append("PY-sem decided every model engine under every alias setting: the table rules R1, R2 (for the classes whose representation it interpreted), "
                           "R5, R6, R8, R9, R12 - its fallback - were not needed")
    else:
        constructor_fields(check)
        enum_reprs(check)
        alias_discipline(check)
        python_exporter(check)
    exports(check)
    repr_limits(check)
    from .common import component_truthiness

    component_truthiness(check, "R13")
    from . import c20

    c20.early_binding(check, check.program)  # Y6: no setting is frozen in a default argument / class body / module level
    c20.call_time_reads(check)  # Y8: Op.str / Op.is_close read decimals and the tolerances when called
    from .common import memoisation_rule, unused_parameters

    unused_parameters(check, "R14", {"PythonExporter", "Representation", "Exporter"})
    memoisation_rule(check)  # H8: a memoised printer answers from an earlier state of the settings (the alias, the decimals)
    from .c13 import engine_init

    engine_init(check)  # H7: the representation rebuilds the engine through Engine(...): its terms are re-pointed to the new engine (by interpretation)
    if check.tier == "thorough":
        example_signatures(check)
    check.exhaustive_parts += ["repr / eval on model engines containing every component class, under three alias settings"]


# ------------------------------------------------------------------------------------------------ R1 / R2 / T10
def constructor_fields(check: Check, skip: set[str] = frozenset()) -> None:
    p = check.program
    classes = [c for c in p.classes.values() if c.lookup("__repr__") is not None and c.lookup("__init__") is not None and not c.is_enum]
    classes = [c for c in classes if c.qualname not in skip]
    classes.sort(key=lambda c: (c.file, c.node.lineno))
    for c in classes:
        if c.is_abstract:
            continue
        facts = ReprFacts(check, c)
        if facts.fn is not None:
            check.analysed(facts.fn)
        init = c.lookup("__init__")
        params = [x for x in init.params if x.name != "self" and x.kind in ("pos", "posonly", "kwonly")]
        where = c.loc()
        if c.name in NOT_REPRESENTABLE:
            check.ok("R1", f"{c.qualname}/representable", f"not representable by design: {NOT_REPRESENTABLE[c.name]}", where)
            continue
        if facts.kind == "custom":
            if c.name == "Rule":
                rule_repr(check, c)
            else:
                check.ok("R1", f"{c.qualname}/custom", "hand-written representation (checked by the alias rule)", where)
            continue
        if facts.kind != "as_constructor":
            raise AnalysisError(f"{c.qualname}.__repr__: representation idiom not recognised")
        stored = init_attrs(c)
        in_vars = {a for a in stored if not property_backed(c, a)}
        if facts.explicit is not None:
            emitted = set(facts.explicit) | facts.added
        else:
            emitted = (in_vars | facts.added) - facts.popped_always
            for old, new in facts.renamed.items():
                emitted.discard(old)
        cond = {k for k, _, _, _ in facts.popped_cond}
        for prm in params:
            construct = f"{c.qualname}.{prm.name}"
            if (c.name, prm.name) in DIRECTIVES:
                check.ok("R1", construct, "directive / back reference, deliberately not represented", where)
                continue
            ok = prm.name in emitted
            why = ""
            if not ok:
                if prm.name in facts.popped_always:
                    why = "it is removed from the fields unconditionally"
                elif prm.name in stored and prm.name not in in_vars:
                    why = "it is stored through a property (not in vars(self)) and not supplied explicitly"
                else:
                    why = "it is not stored under its own name"
                why += "; as_constructor silently omits it" if prm.default is not None else "; as_constructor raises ValueError"
            check.require(ok, "R1", construct,
                          f"constructor parameter `{prm.name}` is emitted by the representation" + (" (unless it holds its default)" if prm.name in cond else "")
                          if ok else f"constructor parameter `{prm.name}` of {c.qualname} is never emitted: {why}", where)
        # R2 conditional elisions
        for key, g, pol, node in facts.popped_cond:
            prm = next((x for x in params if x.name == key), None)
            if prm is None:
                check.ok("R2", f"{c.qualname}.{key}", f"`{key}` is not a constructor parameter; dropping it is harmless", loc(facts.fn, node))
                continue
            ok, why = elision_matches_default(check, c, prm, facts.guard_terms[(key, id(node))], pol)
            check.require(ok, "R2", f"{c.qualname}.{key}", f"`{key}` is omitted exactly when it holds its constructor default ({why})" if ok else
                          f"`{key}` is omitted when `{unparse(g)}` is {pol}, which is not 'equals the constructor default {unparse(prm.default) if prm.default else None}' ({why})",
                          loc(facts.fn, node))


def elision_matches_default(check: Check, c: ClassInfo, prm, gt: Term, pol: bool) -> tuple[bool, str]:
    """The (resolved) condition under which the field is dropped means `the field holds its constructor default`."""
    d = prm.default
    dsrc = unparse(d) if d is not None else None
    init = c.lookup("__init__")
    ri = Resolver(check.program, init)
    first = [s_ for s_, _ in ri.cfg.entry.succ][0]
    dterm = ri.term(d, first) if d is not None else None
    me = ("attr", ("param", "self"), prm.name)
    while (gt[0] == "unop" and gt[1] == "not") or (gt[0] == "call" and gt[1] == ("global", "bool") and len(gt[2]) == 1):
        if gt[0] == "unop":
            gt, pol = gt[2], not pol
        else:
            gt = gt[2][0]

    def same_value(a: Term, b: Term | None) -> bool:
        if b is None:
            return False
        if a == b:
            return True
        ca, cb = const_value(a), const_value(b)
        if ca is not None and cb is not None and type(ca) is type(cb) and ca == cb:
            return True
        # a class constant referred to through the class or through self
        tail = lambda t: t[1].split(".")[-1] if t[0] == "global" else (t[2] if t[0] == "attr" else None)  # noqa: E731
        return tail(a) is not None and tail(a) == tail(b)

    if gt == me:
        if pol:
            return (dsrc == "True", "default True <-> dropped when truthy")
        falsy = dsrc in ("''", '""', "None", "False", "0", "[]", "{}")
        return (falsy, f"default {dsrc} is falsy <-> dropped when falsy")
    other = None
    if gt[0] == "call" and gt[1][0] == "global" and gt[1][1].split(".")[-1] in ("is_close", "isclose") and len(gt[2]) >= 2 and me in gt[2][:2] and pol:
        other = gt[2][1] if gt[2][0] == me else gt[2][0]
        how = "close to"
    elif gt[0] == "cmp" and len(gt[2]) == 2 and me in gt[2] and ((gt[1] == ("==",) and pol) or (gt[1] == ("!=",) and not pol) or (gt[1] == ("is",) and pol)):
        other = gt[2][1] if gt[2][0] == me else gt[2][0]
        how = "=="
    if other is None:
        return (False, f"elision condition `{show(gt)[:60]}` not recognised")
    if dsrc != "None" and same_value(other, dterm):
        return (True, f"{how} {show(other)} <-> default {dsrc}")
    # default None mapped to a constant by the constructor: `self.x = x or K`
    for m in ri.cfg.stmt_nodes():
        for tg in ri.cfg.stores_at(m):
            if isinstance(tg, ast.Attribute) and tg.attr == prm.name and ri.term(tg.value, m) == ("param", "self"):
                v = ri.term(m.ast.value, m)  # type: ignore[union-attr]
                if v[0] == "bool" and v[1] == "or" and v[2][0] == ("param", prm.name) and same_value(v[2][1], other) and dsrc == "None":
                    return (True, f"default None becomes {show(other)} in the constructor")
                if v[0] == "ifexp" and dsrc == "None" and (same_value(v[2], other) or same_value(v[3], other)) and ("param", prm.name) in (v[2], v[3]):
                    return (True, f"default None becomes {show(other)} in the constructor")
    return (False, f"compared with {show(other)}, default {dsrc}")


def rule_repr(check: Check, c: ClassInfo) -> None:
    p = check.program
    fn = c.lookup("__repr__")
    src = unparse(fn.node)
    uses_text = "self.text" in src and "Rule.create.__name__" in src
    check.require(uses_text, "R1", "Rule/repr", "a rule is represented as Rule.create('<text>')", loc(fn))
    rt = p.func("Rule.text")
    covered = {x.attr for x in ast.walk(rt.analysis_node) if isinstance(x, ast.Attribute) and isinstance(x.value, ast.Name) and x.value.id == "self"}
    init = c.lookup("__init__")
    for prm in init.params:
        if prm.name == "self":
            continue
        ok = prm.name in covered
        check.require(ok, "T10", f"Rule.{prm.name}", f"Rule.{prm.name} is carried by the rule text" if ok else
                      f"Rule.{prm.name} is a constructor field that the representation Rule.create(text) cannot carry: it is lost by repr/eval", c.loc())
    # quoting: the text is embedded in single quotes
    create = p.func("Rule.create")
    ok = [x.name for x in create.params][:2] == ["text", "engine"]
    check.require(ok, "R1", "Rule.create/signature", "Rule.create(text, engine=None) accepts the represented call", loc(create))


# ------------------------------------------------------------------------------------------------ R6
def enum_reprs(check: Check) -> None:
    p = check.program
    table = [("Threshold.Comparator", "Threshold.__init__", "comparator"), ("WeightedDefuzzifier.Type", "WeightedDefuzzifier.__init__", "type"),
             ("Function.Element.Type", "Function.Element.__init__", "type")]
    for ename, ctor, prm in table:
        e = p.cls(ename)
        rf = e.methods.get("__repr__")
        init = p.func(ctor)
        check.analysed(init)
        how = None
        if rf is not None:
            check.analysed(rf)
            src = unparse(rf.node)
            how = "value" if "self.value" in src else ("name" if "self.name" in src else None)
            quoted = "'{self." in src or '"{self.' in src or "repr(self." in src
        else:
            quoted = False
        lookup = None
        outer = ename.rsplit(".", 1)[0]
        short = ename.split(".")[-1]
        for x in ast.walk(init.analysis_node):
            if isinstance(x, ast.Subscript) and unparse(x.value).endswith(short) and unparse(x.slice) == prm:
                lookup = "name"
            if isinstance(x, ast.Call) and unparse(x.func).endswith(short) and len(x.args) == 1 and unparse(x.args[0]) == prm:
                lookup = "value"
        ok = how is not None and how == lookup and quoted
        check.require(ok, "R6", ename, f"{ename} is represented by its quoted {how} and the constructor looks it up by {lookup}" if ok else
                      f"{ename} is represented by {how} (quoted={quoted}) but {ctor} looks `{prm}` up by {lookup}", e.loc())


# ------------------------------------------------------------------------------------------------ R5 / R8
def alias_discipline(check: Check) -> None:
    p = check.program
    rep = p.cls("Representation")
    # hand-written representations
    fns = [f for f in p.all_functions() if f.name in ("__repr__", "repr_float", "repr_ndarray", "encapsulate", "as_constructor")]
    n = 0
    for f in fns:
        lits = [x.value for x in ast.walk(f.analysis_node) if isinstance(x, ast.Constant) and isinstance(x.value, str)]
        doc = ast.get_docstring(f.node) or ""
        bad = [s for s in lits if s != doc and ("fl." in s or "fuzzylite." in s)]
        check.require(not bad, "R5", f"{f.qualname}/literal-alias", "no literal library prefix in the representation" if not bad else
                      f"literal prefix {bad[:2]} ignores settings.alias", loc(f))
        n += 1
    SETTINGS = ("global", "fuzzylite.library.settings")
    ALIAS = ("attr", SETTINGS, "alias")

    def ret_terms(f: FunctionInfo):
        r = Resolver(p, f)
        return r, [(n, r.term(n.ast.value, n)) for n in r.cfg.stmt_nodes() if isinstance(n.ast, ast.Return) and n.ast.value is not None]

    for qual in ("Rule.__repr__", "NormLambda.__repr__"):
        f = p.func(qual)
        check.analysed(f)
        r, rets = ret_terms(f)
        want = ("call", ("global", "fuzzylite.operation.Operation.class_name"), (("param", "self"), ("const", True)), ())
        ok = bool(rets) and all(t[0] == "fstr" and t[1] and t[1][0] == want for _, t in rets)
        check.require(ok, "R5", f"{qual}/prefix", "the representation starts with Op.class_name(self, qualname=True), i.e. the prefix of package_of" if ok else
                      f"representation is {[show(t) for _, t in rets]}", loc(f))
    cn = p.func("Operation.class_name")
    check.analysed(cn)
    r, rets = ret_terms(cn)
    xp = cn.params[0].name
    pk = ("call", ("attr", ("global", "fuzzylite.library.representation"), "package_of"), (("param", xp),), ())
    guarded = False
    for n in r.cfg.stmt_nodes():
        if isinstance(n.ast, ast.Assign) and r.term(n.ast.value, n) == pk:
            guarded = any(pol and r.term(g, gn) == ("param", "qualname") for g, pol, gn in r.cfg.must_guards(n))
    gated = ("ifexp", ("param", "qualname"), pk, ("const", ""))
    prefixed = bool(rets) and all(t[0] == "fstr" and t[1] and (t[1][0] == gated or any(a_ == pk for a_ in (t[1][0][1] if t[1][0][0] == "phi" else [t[1][0]]))) for _, t in rets)
    guarded = guarded or (bool(rets) and all(t[0] == "fstr" and t[1] and t[1][0] == gated for _, t in rets))
    check.require(guarded and prefixed, "R5", "Operation.class_name/prefix", "qualified class names are prefixed with package_of(x) iff qualname is requested"
                  if guarded and prefixed else f"class_name returns {[show(t) for _, t in rets]}", loc(cn))
    for qual in ("Representation.repr_float", "Representation.repr_ndarray"):
        f = p.func(qual)
        check.analysed(f)
        r, rets = ret_terms(f)
        pk2 = ("call", ("attr", ("param", "self"), "package_of"), (SETTINGS,), ())
        fstrs = [s_ for _, t in rets for s_ in walk(t) if s_[0] == "fstr"]
        special = [f_ for f_ in fstrs if not any(x_[0] == "fstr" for part in f_[1] for x_ in walk(part))]
        ok = bool(special) and all(any(s_ == pk2 for s_ in walk(t)) for t in special)
        check.require(ok, "R5", f"{qual}/prefix", "inf / nan / array are prefixed through package_of(settings)" if ok else
                      f"representation is {[show(t) for t in special]}", loc(f))
    # R12: who may turn a number into text. Inside the array printer every element goes through the dispatcher (repr1 -> repr_float
    # for floats, which spells inf/nan with the library prefix); no other stringifier touches the elements.
    f = p.func("Representation.repr_ndarray")
    r = Resolver(p, f)
    RAW = {"repr", "builtins.repr", "str", "builtins.str", "format", "builtins.format", "numpy.array2string", "numpy.array_repr", "numpy.array_str",
           "numpy.format_float_positional", "numpy.format_float_scientific", "fuzzylite.operation.Operation.str"}
    raw_uses = []
    dispatched = False
    xparam = ("param", f.params[1].name)
    for n in r.cfg.stmt_nodes():
        if n.copy:
            continue
        for e in r.cfg.exprs_of(n):
            t = r.term(e, n)
            for s_ in walk(t):
                if s_[0] == "global" and s_[1] in RAW:
                    raw_uses.append((n, s_[1]))
                if s_[0] == "call" and s_[1][0] == "attr" and s_[1][2] in ("tolist", "astype", "tostring", "tobytes") and any(q == xparam for q in walk(s_[1][1])):
                    raw_uses.append((n, f"ndarray.{s_[1][2]}"))
                if s_[0] == "fstr" and any(part[0] != "const" and any(q == ("elem", xparam) or q == xparam for q in walk(part)) and
                                           not any(q[0] == "call" and q[1][0] == "attr" and q[1][2] in ("repr1", "repr") for q in walk(part)) and
                                           part[0] not in ("call",) for part in s_[1]):
                    raw_uses.append((n, "f-string"))
                if s_[0] == "call" and s_[1] == ("attr", ("param", "self"), "repr1") and s_[2] and s_[2][0][0] == "elem" and \
                        any(q == xparam for q in walk(s_[2][0])):
                    dispatched = True
    ok = dispatched and not raw_uses
    check.require(ok, "R12", "Representation.repr_ndarray/elements",
                  "every element of an array is printed through self.repr1 (so floats reach repr_float); no raw stringifier is applied to the array" if ok else
                  (f"the elements of an array can be printed by `{raw_uses[0][1]}` instead of the dispatcher: an infinite (or NaN) element is written "
                   "as a bare `inf`, which is not defined when the code is evaluated under an alias other than '*'" if raw_uses else
                   "no call self.repr1(element, ...) on the elements of the array was found"), loc(f, raw_uses[0][0] if raw_uses else f.node))
    ac = p.func("Representation.as_constructor")
    check.analysed(ac)
    r, rets = ret_terms(ac)
    ok = bool(rets) and all(t[0] == "fstr" and t[1] and t[1][0][0] == "call" and t[1][0][1] == ("attr", ("param", "self"), "package_of") and
                            t[1][0][2] and t[1][0][2][0][0] == "bool" and ("param", ac.params[1].name) in t[1][0][2][0][2] for _, t in rets)
    check.require(ok, "R5", "Representation.as_constructor/prefix", "constructors are prefixed through package_of(cast_as or x)" if ok else
                  f"constructor text is {[show(t)[:120] for _, t in rets]}", loc(ac))
    # R8: the alias cases of package_of and import_statement
    po, im = p.func("Representation.package_of"), p.func("Representation.import_statement")
    check.analysed(po)
    check.analysed(im)

    from ..guards import RoleEval, paths
    from ..sym import PathResolver

    def alias_tests(f: FunctionInfo) -> set:
        r_ = Resolver(p, f)
        out = set()
        for n in r_.cfg.stmt_nodes():
            if n.kind == "test":
                t = r_.term(n.ast, n)
                if t == ("unop", "not", ALIAS) or t == ALIAS:
                    out.add("no alias")
                elif t[0] == "cmp" and t[1] in (("==",), ("!=",)) and ALIAS in t[2]:
                    other = [x for x in t[2] if x != ALIAS]
                    out.add(f"alias == {other[0][1]!r}" if other and other[0][0] == "const" else show(t))
        return out

    a, b2 = alias_tests(po), alias_tests(im)
    check.require(a == b2 == {"no alias", "alias == '*'"}, "R8", "Representation/alias-cases",
                  f"package_of and import_statement distinguish the same alias cases {sorted(a)}" if a == b2 else
                  f"package_of tests {sorted(a)}, import_statement tests {sorted(b2)}", loc(po))
    # the statement produced for each alias, by interpreting import_statement on '', '*' and a custom alias
    r = Resolver(p, im)
    forms = {}
    for alias in ("", "*", "fl"):
        ev = RoleEval(r, lambda t, e: "alias" if t == ALIAS else None)
        outs = set()
        for pa in paths(r.cfg, [s_ for s_, _ in r.cfg.entry.succ][0], ev, {"alias": alias}, set()):
            end = [n for n in pa if n.kind == "stmt" and isinstance(n.ast, ast.Return)]
            if end and end[-1].ast.value is not None:
                pr = PathResolver(p, im, pa)
                t = pr.at(end[-1].ast.value, pr.index_of(end[-1]))
                while t[0] == "ifexp":
                    cnd = ev.eval_term(t[1], {"alias": alias})
                    t = t[2] if cnd is True else (t[3] if cnd is False else ("const", "<undecided>"))
                outs.add(t)
        forms[alias] = outs
    ok = forms[""] == {("const", "import fuzzylite")} and forms["*"] == {("const", "from fuzzylite import *")} and \
        forms["fl"] == {("fstr", (("const", "import fuzzylite as "), ALIAS))}
    check.require(ok, "R8", "Representation.import_statement/forms", "no alias -> `import fuzzylite`, '*' -> `from fuzzylite import *`, else `import fuzzylite as <alias>`"
                  if ok else f"import forms: { {k: [show(x) for x in v] for k, v in forms.items()} }", loc(im), exhaustive=True, cases=3)
    # package_of: the prefix for library modules under each case
    r = Resolver(p, po)
    assigns = {}
    for n in r.cfg.stmt_nodes():
        if isinstance(n.ast, ast.Assign) and isinstance(n.ast.targets[0], ast.Name) and n.ast.targets[0].id == "package":
            gs = [(r.term(g, gn), pol) for g, pol, gn in r.cfg.must_guards(n)]
            if any(gt == ("unop", "not", ALIAS) and pol for gt, pol in gs):
                assigns["none"] = r.term(n.ast.value, n)
            elif any(gt[0] == "cmp" and ALIAS in gt[2] and pol for gt, pol in gs):
                assigns["star"] = r.term(n.ast.value, n)
            elif any(gt[0] == "call" and gt[1][0] == "attr" and gt[1][2] == "startswith" and pol for gt, pol in gs):
                assigns["custom"] = r.term(n.ast.value, n)
    ok = assigns.get("star") == ("const", "") and assigns.get("custom") == ALIAS and assigns.get("none", ("const", None))[0] == "attr" and assigns["none"][2] == "__name__"
    check.require(ok, "R8", "Representation.package_of/prefixes", "no alias -> module name, '*' -> no prefix, else the alias (for library modules)" if ok else
                  f"prefixes: { {k: show(v) for k, v in assigns.items()} }", loc(po))


# ------------------------------------------------------------------------------------------------ R7
def exports(check: Check) -> None:
    p = check.program
    init = p.module_of("")
    stars = {s.module for s in init.tree.body if isinstance(s, ast.ImportFrom) and any(a.name == "*" for a in s.names)}
    for mod in sorted(p.modules.values(), key=lambda m: m.name):
        if mod.name == p.package:
            continue
        short = mod.name.split(".")[-1]
        classes = [c for c in mod.classes.values() if not c.name.startswith("_")]
        if not classes and short not in ("library", "types"):
            continue
        check.units.add(mod.relpath)
        check.require(short in stars, "R7", f"{short}/star-import", f"the package re-exports module {short} with a star import", init.relpath)
        missing = [c.name for c in classes if mod.all_names is None or c.name not in mod.all_names]
        check.require(not missing, "R7", f"{short}/__all__", f"every class of {short} is in its __all__" if not missing else
                      f"classes missing from {short}.__all__ (eval of a representation with alias '*' or 'fl' fails): {missing}", mod.relpath)
    lib = p.module_of("library")
    need = {"inf", "nan", "array", "settings", "representation", "scalar"}
    missing = sorted(need - set(lib.all_names or []))
    check.require(not missing, "R7", "library/values", "inf, nan and array are exported" if not missing else f"missing from library.__all__: {missing}", lib.relpath)


# ------------------------------------------------------------------------------------------------ R9
def python_exporter(check: Check) -> None:
    p = check.program
    enc = p.func("PythonExporter.encapsulate")
    ts = p.func("PythonExporter.to_string")
    check.analysed(enc)
    check.analysed(ts)
    renc = Resolver(p, enc)
    rets = [renc.term(n.ast.value, n) for n in renc.cfg.stmt_nodes() if isinstance(n.ast, ast.Return) and n.ast.value is not None]
    inst = ("param", enc.params[1].name)
    imp = ("call", ("attr", ("global", "fuzzylite.library.representation"), "import_statement"), (), ())
    rp = ("call", ("global", "repr"), (inst,), ())
    alts = [a_ for t in rets for a_ in (t[1] if t[0] == "phi" else [t])]
    ok = bool(alts) and all(any(s_ == imp for s_ in walk(a_)) and any(s_ == rp for s_ in walk(a_)) for a_ in alts)
    check.require(ok, "R9", "PythonExporter.encapsulate/content", "encapsulated code = import statement + the object's representation" if ok else
                  f"encapsulated code is {[show(a_)[:140] for a_ in alts]}", loc(enc))
    # to_string: the returned text along every path, for the four settings of (encapsulated, formatted)
    from ..guards import RoleEval, paths, specialise
    from ..sym import PathResolver

    r = Resolver(p, ts)
    cfg = r.cfg

    def classify(t: Term, e):  # type: ignore[no-untyped-def]
        return {"self.encapsulated": "encapsulated", "self.formatted": "formatted"}.get(path_of(t) or "")

    inst_t = ("param", ts.params[1].name)
    plain = ("call", ("global", "repr"), (inst_t,), ())
    wrapped = ("call", ("attr", ("param", "self"), "encapsulate"), (inst_t,), ())
    first = [s_ for s_, _ in cfg.entry.succ][0]
    bad_switch, bad_format, rows = [], [], 0
    for enc_v in (True, False):
        for fmt_v in (True, False):
            ev = RoleEval(r, classify)
            got = set()
            for pa in paths(cfg, first, ev, {"encapsulated": enc_v, "formatted": fmt_v}, set()):
                rn = [x for x in pa if x.kind == "stmt" and isinstance(x.ast, ast.Return) and x.ast.value is not None]
                if not rn:
                    got.add(("none",))
                    continue
                pr = PathResolver(p, ts, pa)
                got.add(specialise(pr.at(rn[-1].ast.value, pr.index_of(rn[-1])), ev, {"encapsulated": enc_v, "formatted": fmt_v}))
            rows += 1
            base = wrapped if enc_v else plain
            want = ("call", ("attr", ("param", "self"), "format"), (base,), ()) if fmt_v else base
            if got != {want}:
                inner = {g_[2][0] if g_[0] == "call" and g_[1] == ("attr", ("param", "self"), "format") and len(g_[2]) == 1 else g_ for g_ in got}
                (bad_switch if inner != {base} else bad_format).append((enc_v, fmt_v, sorted(show(g_)[:80] for g_ in got)))
    check.require(not bad_switch, "R9", "PythonExporter.to_string/switch", "encapsulated iff self.encapsulated, else the plain representation" if not bad_switch else
                  f"(encapsulated, formatted) -> returned text: {bad_switch[:2]}", loc(ts), exhaustive=True, cases=rows)
    check.require(not bad_format, "R9", "PythonExporter.to_string/format", "formatting is applied iff self.formatted" if not bad_format else
                  f"(encapsulated, formatted) -> returned text: {bad_format[:2]}", loc(ts), exhaustive=True, cases=rows)


REPRLIB_LIMITS = ["maxtuple", "maxlist", "maxarray", "maxdict", "maxset", "maxfrozenset", "maxdeque", "maxstring", "maxlong", "maxother"]


def repr_limits(check: Check) -> None:
    """R11: Representation lifts every truncation limit of reprlib.Repr (a truncated container is not valid Python)."""
    p = check.program
    fn = p.func("Representation.__init__")
    check.analysed(fn)
    rep = p.cls("Representation")
    check.require(any(b.endswith("Repr") for b in rep.external_bases), "R11", "Representation/base", "Representation specialises reprlib.Repr", rep.loc())
    raised: set[str] = set()
    for x in ast.walk(fn.analysis_node):
        if isinstance(x, (ast.AugAssign, ast.Assign)):
            for t in ([x.target] if isinstance(x, ast.AugAssign) else x.targets):
                if isinstance(t, ast.Attribute) and isinstance(t.value, ast.Name) and t.value.id == "self" and t.attr.startswith("max"):
                    raised.add(t.attr)
        if isinstance(x, ast.For):
            # for name in <constant list>: setattr(self, name, ...)
            names: list[str] = []
            it = x.iter
            if isinstance(it, ast.Call) and isinstance(it.func, ast.Attribute) and it.func.attr == "split" and not it.args:
                src = it.func.value
                if isinstance(src, ast.Name):
                    for a_ in ast.walk(fn.analysis_node):
                        if isinstance(a_, ast.Assign) and isinstance(a_.targets[0], ast.Name) and a_.targets[0].id == src.id and isinstance(a_.value, ast.Constant):
                            src = a_.value
                if isinstance(src, ast.Constant) and isinstance(src.value, str):
                    names = src.value.split()
            elif isinstance(it, (ast.List, ast.Tuple, ast.Set)):
                names = [e.value for e in it.elts if isinstance(e, ast.Constant) and isinstance(e.value, str)]
            if names and any(isinstance(c_, ast.Call) and isinstance(c_.func, ast.Name) and c_.func.id == "setattr" and len(c_.args) == 3 and
                             unparse(c_.args[0]) == "self" and isinstance(x.target, ast.Name) and unparse(c_.args[1]) == x.target.id for c_ in ast.walk(x)):
                raised |= set(names)
    for lim in REPRLIB_LIMITS:
        check.require(lim in raised, "R11", f"Representation.__init__/{lim}", f"reprlib limit `{lim}` is lifted" if lim in raised else
                      f"reprlib limit `{lim}` keeps its small default: longer containers are printed with `...` and the representation is not valid Python", loc(fn))


# ------------------------------------------------------------------------------------------------ thorough: examples
def example_signatures(check: Check) -> None:
    p = check.program
    files = sorted(glob.glob(os.path.join(p.root, p.package, "examples", "**", "*.py"), recursive=True))
    files = [f for f in files if not f.endswith("__init__.py")]
    if len(files) < 30:
        raise AnalysisError(f"example conformance: only {len(files)} example modules found")
    bad = []
    calls = 0
    for f in files:
        tree = ast.parse(open(f, encoding="utf-8").read())
        for x in ast.walk(tree):
            if isinstance(x, ast.Call) and isinstance(x.func, ast.Attribute) and isinstance(x.func.value, ast.Name) and x.func.value.id == "fl":
                c = p.classes.get(x.func.attr)
                if c is None:
                    continue
                init = c.lookup("__init__")
                if init is None:
                    continue
                calls += 1
                names = [q.name for q in init.params if q.name != "self"]
                for k in x.keywords:
                    if k.arg is not None and k.arg not in names:
                        bad.append(f"{os.path.relpath(f, p.root)}:{x.lineno}: {c.name}({k.arg}=...) is not a constructor parameter")
                if len(x.args) > len(names):
                    bad.append(f"{os.path.relpath(f, p.root)}:{x.lineno}: {c.name} called with {len(x.args)} positional arguments")
    check.require(not bad, "R10", "corpus/examples", f"{calls} constructor calls in {len(files)} shipped example modules match the class signatures"
                  if not bad else f"shipped Python exports no longer match the constructors: {bad[:3]}", "fuzzylite/examples", {"calls": calls},
                  exhaustive=True, cases=calls)
