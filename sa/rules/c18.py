"""C18 - FuzzyLite Dataset export is a faithful tabulation of the engine."""

from __future__ import annotations

import ast
import itertools
from typing import Any

from ..guards import RoleEval, paths, simulate, weak_orders
from ..pm import AnalysisError, unparse
from ..report import Check
from ..sym import PathResolver, Resolver, Term, path_of, show, walk
from .common import body_entry, const_value, is_path, iter_base, iter_precedes, loc, loops_over, strip

EXPLANATION = (
    "static analysis of FldExporter.write_from_scope / write / header / write_from_reader and Op.increment: taint rule "
    "on the grid size (a truncated floating n-th root must not reach the resolution; a rounded one needs an integer "
    "k**n comparison as exactness witness), grid-point formula origins, the mixed-radix counter decided by abstract "
    "interpretation over small concrete values, write plumbing (restart -> column i to variable i -> process -> "
    "inputs/outputs by their own switches -> savetxt format/delimiter/header), header/write switch agreement, reader "
    "skip predicate over all orderings of (line index, skip_lines) x blank x comment; the row loop gives an input its grid value iff "
    "it is an active variable, decided for resolution 0 (one-point grid) and > 0 (G10); G11 - write_from_scope together with Op.increment is "
    "interpreted abstractly (sa/absexec.py) on engines with 1-3 inputs whose bounds and current values are symbols, for both scopes, every "
    "size up to a bound and every active set, with the floating root estimate modelled as any integer within one of the exact root: the "
    "matrix handed to write() is exactly the specified grid (size, inclusive equidistant values as exact linear forms, lexicographic order); write (W4), "
    "write_from_reader (G9) and Op.increment (G8) are decided the same way; every parameter of the FldExporter methods is read (W5: a wrapper that drops an option)"
    "; W4's model engine answers every method, and anything done to the engine besides restart / process shows in the sequence"
)
ASSUMPTIONS = ["numpy.savetxt / hstack semantics; the printed digits are not decided", "round(pow(v, 1/n)) is within one of the exact integer root (G11 runs the integer correction for all three estimates)", "grid bounds: 1-3 input variables, sizes up to 29 (quick) / 69 (thorough)"]
FLOORS = {"W5": 1, "G11": 3, "G10": 1, "N1": 2, "G8": 4, "W4": 8, "S4": 2, "G9": 1, "N2": 1}

TRUNCATORS = {"int", "math.floor", "numpy.floor", "math.trunc", "numpy.trunc", "numpy.fix", "numpy.floor_divide"}
ROOT_CALLS = {"pow", "math.pow", "numpy.power", "numpy.float_power"}
ROOT_FUNCS = {"math.sqrt", "numpy.sqrt", "numpy.cbrt", "math.cbrt"}


def is_fractional(t: Term) -> bool:
    """An exponent that is not an integer by construction: contains a true division or a non-integral float constant."""
    for s in walk(t):
        if s[0] == "binop" and s[1] == "/":
            return True
        if s[0] == "const" and isinstance(s[1], float) and s[1] != int(s[1]):
            return True
    return False


def float_roots(t: Term) -> list[Term]:
    out = []
    for s in walk(t):
        if s[0] == "binop" and s[1] == "**" and is_fractional(s[3]):
            out.append(s)
        elif s[0] == "call" and s[1][0] == "global" and s[1][1] in ROOT_CALLS and len(s[2]) >= 2 and is_fractional(s[2][1]):
            out.append(s)
        elif s[0] == "call" and s[1][0] == "global" and s[1][1] in ROOT_FUNCS:
            out.append(s)
    return out


def truncated_roots(t: Term) -> list[Term]:
    out = []
    for s in walk(t):
        if s[0] == "call" and s[1][0] == "global" and s[1][1] in TRUNCATORS and any(float_roots(a) for a in s[2]):
            # a truncation directly over a root-derived value, unless a rounding sits in between
            for a in s[2]:
                if float_roots(a) and not _rounded(a):
                    out.append(s)
        if s[0] == "binop" and s[1] == "//" and (float_roots(s[2]) or float_roots(s[3])):
            out.append(s)
    return out


def _rounded(t: Term) -> bool:
    """Every float root inside t is enclosed by round()/rint()."""
    if not float_roots(t):
        return True
    if t[0] == "call" and t[1][0] == "global" and t[1][1] in ("round", "numpy.round", "numpy.rint", "numpy.around"):
        return True
    if t[0] == "call" and t[1][0] == "global" and (t[1][1] in ROOT_FUNCS or (t[1][1] in ROOT_CALLS and len(t[2]) >= 2 and is_fractional(t[2][1]))):
        return False
    if t[0] in ("call",):
        return all(_rounded(a) for a in t[2])
    if t[0] == "binop":
        if t[1] == "**" and is_fractional(t[3]):
            return False
        return _rounded(t[2]) and _rounded(t[3])
    if t[0] == "unop":
        return _rounded(t[2])
    if t[0] == "phi":
        return all(_rounded(a) for a in t[1])
    return not float_roots(t)


def run(check: Check) -> None:
    try:
        grid_size(check)
    except AnalysisError as ex:
        # the taint rule N1 locates the resolution by the way the pinned code is written; the grid size itself is decided by G11 for every
        # root estimate within one of the exact root, so an unfamiliar shape leaves N1 undecided instead of failing the check
        check.notes.append(f"N1/N2 undecided (decided by G11 only): {ex}")
        check.ok("N1", "FldExporter.write_from_scope/grid-size", f"taint rule not applicable to this shape ({ex}); the grid size is decided by G11")
        check.ok("N1", "FldExporter.write_from_scope/grid-size-inputs", "decided by G11")
        check.ok("N2", "FldExporter.write_from_scope/each-variable", "decided by G11")
    try:
        active_variables(check)
    except AnalysisError as ex:
        # G10 locates the row loop by the way the pinned code is written; which inputs get grid values is decided by G11 for every set of active variables
        check.notes.append(f"G10 undecided (decided by G11 only): {ex}")
        check.ok("G10", "FldExporter.write_from_scope/active-variables", f"role rule not applicable to this shape ({ex}); decided by G11")
    grid_semantics(check)
    from .common import unused_parameters

    unused_parameters(check, "W5", {"FldExporter"}, {"Operation.increment", "Operation.midpoints"})
    increment(check)
    write_plumbing(check)
    header_agreement(check)
    reader(check)
    check.exhaustive_parts += ["Op.increment over positions/values 0..2", "reader skip predicate over all orderings"]


# ------------------------------------------------------------------------------------------------ N1 / N2
def grid_size(check: Check) -> None:
    p = check.program
    fn = p.func("FldExporter.write_from_scope")
    check.analysed(fn)
    r = Resolver(p, fn)
    cfg = r.cfg
    values = fn.params[3].name if len(fn.params) > 3 else "values"
    scope = fn.params[4].name if len(fn.params) > 4 else "scope"

    def classify(t: Term, e):
        if t[0] == "cmp" and t[1] == ("==",) and ("param", scope) in t[2]:
            other = [x for x in t[2] if x != ("param", scope)]
            if other and other[0][0] == "global" and other[0][1].endswith("ScopeOfValues.AllVariables"):
                return "all_variables"
            if other and other[0][0] == "global" and other[0][1].endswith("ScopeOfValues.EachVariable"):
                return "each_variable"
        if t == ("param", "active_variables"):
            return "active_given"
        if t[0] == "cmp" and t[1] == ("is",) and t[2] == (("param", "active_variables"), ("const", None)):
            return "active_none"
        if t[0] == "cmp" and t[1] == ("==",) and any(x[0] == "call" and x[1] == ("global", "len") for x in t[2]) and ("const", 0) in t[2]:
            return "no_inputs"
        return None

    # the statement that consumes the resolution: max_values = [resolution if ...]
    uses = [n for n in cfg.stmt_nodes() if any(isinstance(x, ast.Name) and x.id == "resolution" for e in cfg.exprs_of(n) for x in ast.walk(e))
            and not any(d.name == "resolution" for d in cfg.defs_at(n))]
    res_name = "resolution"
    if not uses:
        raise AnalysisError("FldExporter.write_from_scope: the grid resolution variable is not recognised")
    first = [s for s, _ in cfg.entry.succ][0]
    results = {}
    for scope_all in (True, False):
        ev = RoleEval(r, classify)
        env = {"all_variables": scope_all, "each_variable": not scope_all, "active_none": True, "active_given": False, "no_inputs": False}
        terms = []
        for pa in paths(cfg, first, ev, env, {uses[0]}, skip_loops=True):
            if pa[-1] is not uses[0]:
                continue
            pr = PathResolver(p, fn, pa)
            terms.append(pr.at(ast.Name(id=res_name, ctx=ast.Load()), len(pa) - 1))
        results[scope_all] = terms
    # all variables: every path-sensitive term plus the flow-insensitive one (which includes loop-carried definitions)
    if not results[True]:
        raise AnalysisError("FldExporter.write_from_scope: no path computes the resolution for AllVariables")
    flow = r.name_term(res_name, uses[0])
    flow_all = [a for a in (flow[1] if flow[0] == "phi" else [flow]) if a not in results[False]]
    all_terms = list(dict.fromkeys(results[True] + flow_all))
    trunc = [x for t in all_terms for x in truncated_roots(t)]
    roots = [x for t in all_terms for x in float_roots(t)]
    shown = show(results[True][-1])[:300]
    if trunc:
        check.violation("N1", "FldExporter.write_from_scope/grid-size",
                        f"the number of values per input is a truncated floating-point root ({show(trunc[0])[:90]}): pow(64, 1/3) is "
                        "3.9999999999999996, so perfect powers lose a grid value per input (64 -> 27 rows, 1000 -> 729)",
                        loc(fn, uses[0]), {"resolution": shown})
    elif roots:
        witness = _integer_power_witness(r, cfg, values)
        check.require(witness, "N1", "FldExporter.write_from_scope/grid-size",
                      "a rounded floating root is corrected by integer comparisons of k**inputs with the requested size"
                      if witness else f"a floating root estimate ({show(roots[0])[:80]}) reaches the grid size without an integer k**n check",
                      loc(fn, uses[0]), {"resolution": shown})
    else:
        check.ok("N1", "FldExporter.write_from_scope/grid-size", "the grid size is computed without a floating-point root",
                 loc(fn, uses[0]), {"resolution": shown})
    # the requested size and the number of inputs both reach the all-variables resolution (through data or loop conditions)
    tests = [r.term(h_.ast, h_) for h_ in cfg.loop_heads() if h_.kind == "test"] + \
            [r.term(n_.ast, n_) for n_ in cfg.stmt_nodes() if n_.kind == "test" and cfg.enclosing_loops(n_)]
    pool = all_terms + tests
    dep_values = any(s == ("param", values) for t in pool for s in walk(t))
    dep_inputs = any(s[0] == "call" and s[1] == ("global", "len") and s[2] and path_of(s[2][0]) == "engine.input_variables" for t in pool for s in walk(t))
    check.require(dep_values and dep_inputs, "N1", "FldExporter.write_from_scope/grid-size-inputs",
                  "k is computed from the requested size and the number of input variables" if dep_values and dep_inputs else
                  f"resolution = {shown[:120]}", loc(fn, uses[0]))
    # each variable: v values per input -> resolution v - 1
    ok = bool(results[False]) and all(t == ("binop", "-", ("param", values), ("const", 1)) for t in results[False])
    check.require(ok, "N2", "FldExporter.write_from_scope/each-variable", "with `each variable = v` the resolution is v - 1 (v points per input)"
                  if ok else f"resolution = {[show(t) for t in results[False]]}", loc(fn, uses[0]))
    # the grid-point formula, the inclusive ends and the enumeration order are decided as a whole by G11 (grid_semantics)


def active_variables(check: Check) -> None:
    """G10 [E]: in the row loop of write_from_scope, input variable i gets its grid value iff it is one of the active variables and its
    current value otherwise - for a one-point grid (resolution 0) as for any other. One iteration is interpreted under
    {active, not active} x {resolution = 0, resolution > 0}."""
    from ..guards import RoleEval, simulate
    from .common import body_entry, iter_base, loops_over

    p = check.program
    fn = p.func("FldExporter.write_from_scope")
    r = Resolver(p, fn)
    cfg = r.cfg
    loops = [lp for lp in loops_over(r, lambda b: is_path(b, "engine.input_variables")) if cfg.enclosing_loops(lp[0])]
    if not loops:
        raise AnalysisError("FldExporter.write_from_scope: row loop over engine.input_variables not found")
    head = loops[0][0]
    body = cfg.loop_body(head)
    grid, current = [], []
    for n, c in cfg.find_calls(".append"):
        if n not in body or not c.args:
            continue
        t = r.term(c.args[0], n)
        parts = list(walk(t))
        if any(s[0] == "attr" and s[2] == "minimum" for s in parts) and any(s[0] == "attr" and s[2] in ("drange", "maximum") for s in parts):
            grid.append(n)
        elif any(s[0] == "attr" and s[2] in ("value", "_value") for s in parts):
            current.append(n)
    if not grid or not current:
        # an unfamiliar shape of the row loop (e.g. the grid value computed in a helper): G11 decides the active/inactive handling
        # on the whole grid, so this is not an analysis failure
        check.notes.append("G10: grid-value / current-value appends of the row loop not recognised; active variables are decided by G11 only")
        check.ok("G10", "FldExporter.write_from_scope/active-variables", "row loop shape not recognised by the role interpretation; decided by G11 (grid-values)", loc(fn))
        return
    res_terms = {t for n in grid for t in _resolution_terms(r, n)}

    def classify(t: Term, e):
        if t[0] == "cmp" and t[1] == ("in",) and t[2][0][0] == "elem" and is_path(iter_base(t[2][0][1])[0], "engine.input_variables") and \
                any(s == ("param", "active_variables") for s in walk(t[2][1])):
            return "active"
        if t in res_terms:
            return "res"
        return None

    rows = 0
    bad = []
    nondet = False
    ev = RoleEval(r, classify)
    for active in (True, False):
        for res, zero in ((0, 0), (1, 0)):
            env = {"active": active, "res": res, "const:0.0": zero, "const:1.0": 1, "const:0": zero}
            may, must = simulate(cfg, body_entry(head), ev, env, set(grid + current), {x for x in cfg.nodes if x not in body})
            rows += 1
            g_may, g_must = any(n in may for n in grid), any(n in must for n in grid)
            c_may, c_must = any(n in may for n in current), any(n in must for n in current)
            if g_may != g_must or c_may != c_must:
                nondet = True
                continue
            if g_must != active or c_must != (not active):
                bad.append(f"{'active' if active else 'inactive'} variable, resolution {'0 (one grid point)' if res == 0 else '> 0'}: the row gets "
                           f"{'the grid value' if g_must else 'the current value of the variable' if c_must else 'nothing'}")
    if nondet:
        check.violation("G10", "FldExporter.write_from_scope/active-variables", "whether an input gets its grid value depends on something other than its "
                        f"membership in the active variables and the resolution: {sorted(set(ev.unknown_atoms))[:3]}", loc(fn, head))
        return
    check.require(not bad, "G10", "FldExporter.write_from_scope/active-variables",
                  "an input variable gets its grid value iff it is active, its current value otherwise (also on a one-point grid)" if not bad else bad[0] +
                  " (specified: grid value iff active)", loc(fn, grid[0]), {"cases": rows, "disagreements": bad}, exhaustive=True, cases=rows)


def _resolution_terms(r: Resolver, n) -> list[Term]:
    """The resolution as it appears in the grid-value expression: the divisor under max(1, .) / the plain divisor."""
    out = []
    for c in r.cfg.calls_in(n):
        for a in c.args:
            for s in walk(r.term(a, n)):
                if s[0] == "binop" and s[1] == "/" and s[2][0] == "attr" and s[2][2] == "drange":
                    d = s[3]
                    if d[0] == "call" and d[1] == ("global", "max") and len(d[2]) == 2:
                        out += [x for x in d[2] if x[0] != "const"]
                    else:
                        out.append(d)
    return out


def _integer_power_witness(r: Resolver, cfg, values: str) -> bool:
    """A loop test comparing an integer power (exponent not fractional) of the candidate with the requested size."""
    for h in cfg.loop_heads():
        if h.kind != "test":
            continue
        t = r.term(h.ast, h)
        for s in walk(t):
            if s[0] == "cmp":
                sides = list(s[2])
                has_pow = [x for x in sides if any(y[0] == "binop" and y[1] == "**" and not is_fractional(y[3]) for y in walk(x))]
                has_val = [x for x in sides if any(y == ("param", values) for y in walk(x)) and x not in has_pow]
                if has_pow and has_val:
                    return True
    return False


# ------------------------------------------------------------------------------------------------ G8
def increment(check: Check) -> None:
    """G8 [E up to the bound]: `Op.increment(x, minimum, maximum[, position])` is the successor function of a mixed-radix counter whose
    last digit is the least significant: interpreted abstractly (sa/absexec.py) for every counter of 1-3 digits with per-digit ranges
    drawn from {0..2} (minimum <= x <= maximum), with and without an explicit position; compared with the specified successor:
    digits to the right of the incremented one are reset to their minimum, the result is False (and all digits are at their minimum)
    exactly when the counter overflows."""
    from ..absexec import AbsExec, Internal, Opaque, Raised, Unknown, _Return

    p = check.program
    fn = p.func("Operation.increment")
    check.analysed(fn)
    node = fn.analysis_node
    names = [a.arg for a in node.args.args]
    if len(names) < 4:
        raise AnalysisError("Operation.increment: signature not recognised")

    def spec(x: list[int], mn: list[int], mx: list[int], pos: int | None):
        x = list(x)
        i = len(x) - 1 if pos is None else pos
        if not x or i < 0:
            return False, x
        while i >= 0:
            if x[i] < mx[i]:
                x[i] += 1
                return True, x
            x[i] = mn[i]
            i -= 1
        return False, x

    bad: dict[str, str] = {}
    cases = 0
    try:
        for n in range(0, 4):
            ranges = list(itertools.product([(0, 0), (0, 1), (0, 2), (1, 2), (1, 1)], repeat=n)) if n <= 2 else list(itertools.product([(0, 0), (0, 1), (1, 2)], repeat=n))
            for rg in ranges:
                mn, mx = [a for a, _ in rg], [b for _, b in rg]
                for xs in itertools.product(*[range(a, b + 1) for a, b in rg]):
                    for pos in [None] + list(range(n)):
                        cases += 1
                        x = list(xs)
                        ex = AbsExec(fn.qualname, helpers={"increment": fn})
                        env = {names[0]: x, names[1]: list(mn), names[2]: list(mx), names[3]: pos, "Op": Opaque("Op"), "Operation": Opaque("Op")}
                        what = f"increment(x={list(xs)}, minimum={mn}, maximum={mx}" + (f", position={pos})" if pos is not None else ")")
                        try:
                            ex.block(list(node.body), env)
                            got = None
                        except _Return as r_:
                            got = r_.value
                        except (Raised, Internal) as err:
                            bad.setdefault("raises", f"{what} raises {err.cls}")
                            continue
                        want, wx = spec(list(xs), mn, mx, pos)
                        if got is not want:
                            bad.setdefault("result", f"{what} returns {got}, specified {want} (False exactly when the counter overflows)")
                        if x != wx:
                            bad.setdefault("digits" if pos is None else "digits-position", f"{what} leaves x = {x}, specified {wx}")
    except Unknown as u:
        raise AnalysisError(str(u)) from None

    def verdict(construct: str, kinds: list[str], ok_text: str) -> None:
        hits = [bad[k] for k in kinds if k in bad]
        check.require(not hits, "G8", f"Operation.increment/{construct}", ok_text if not hits else hits[0], loc(fn), {"cases": cases}, exhaustive=True, cases=cases)

    verdict("digit", ["digits", "raises"], f"the counter is advanced to its mixed-radix successor, the last digit being the least significant ({cases} counters of up to 3 digits)")
    verdict("carry", ["digits-position"], "with an explicit position that digit is incremented and the digits to its right are left alone; a carry resets the digit to its minimum")
    verdict("default-position", ["digits"], "without a position the last digit is incremented (last input varies fastest)")
    verdict("overflow", ["result"], "the counter reports False exactly when it overflows (every digit back at its minimum) and True otherwise")


# ------------------------------------------------------------------------------------------------ W4
def write_plumbing(check: Check) -> None:
    """W4 [E]: `FldExporter.write` interpreted abstractly (sa/absexec.py) on an engine with two input variables and a table of 1-3
    columns, for the 8 settings of (input_values, output_values, headers): the engine is restarted, input variable i is given
    column i, the engine is processed once, the values written are read *after* processing - inputs (iff input_values) before outputs
    (iff output_values) - and go to numpy.savetxt with a fixed-point format built from settings.decimals at call time, the
    exporter's separator, the header iff headers, no comment prefix; a table with too few columns is rejected before anything is
    touched."""
    from ..absexec import AbsExec, FString, Internal, MObj, Opaque, Raised, Unknown, _Return

    p = check.program
    fn = p.func("FldExporter.write")
    check.analysed(fn)
    node = fn.analysis_node
    names = [a.arg for a in node.args.args]
    if len(names) < 4:
        raise AnalysisError("FldExporter.write: signature not recognised")
    bad: dict[str, str] = {}
    cases = 0
    n_inputs = 2

    def note(kind: str, text: str) -> None:
        bad.setdefault(kind, text)

    try:
        for ncols in (1, 2, 3):
            for fin, fout, fhead in itertools.product((True, False), repeat=3):
                cases += 1
                events: list[Any] = []
                vars_ = [MObj("InputVariable", {"name": f"in{i}"}) for i in range(n_inputs)]
                out_ = MObj("OutputVariable", {"name": "out0"})
                block_ = MObj("RuleBlock", {"name": "block", "rules": [MObj("Rule", {"index": 0}), MObj("Rule", {"index": 1})], "enabled": True})
                engine = MObj("Engine", {"input_variables": vars_, "output_variables": [out_], "variables": vars_ + [out_], "rule_blocks": [block_],
                                         "input_values": ("stale", "inputs"), "output_values": ("stale", "outputs"), "name": Opaque("name")})
                table = MObj("Table", {"shape": ("rows", ncols), "ndim": 2, "__len__": 3})
                exporter = MObj("FldExporter", {"input_values": fin, "output_values": fout, "headers": fhead, "separator": ("separator",)})
                saved: dict[str, Any] = {}

                def restart(ex_, e, recv, args, kw, events=events, engine=engine):
                    events.append(("restart",))
                    return None

                def process(ex_, e, recv, args, kw, events=events, engine=engine, vars_=vars_):
                    events.append(("process", tuple(v.fields.get("value") for v in vars_)))
                    engine.fields["input_values"] = ("fresh", "inputs", len(events))
                    engine.fields["output_values"] = ("fresh", "outputs", len(events))
                    return None

                def subscript(ex_, e, base, idx, table=table):
                    if base is table and isinstance(idx, tuple) and len(idx) == 2 and idx[0] == ("slice", None, None, None):
                        return ("column", idx[1])
                    raise Unknown(f"{fn.qualname}: subscript {idx} of the table is outside the model")

                def savetxt(ex_, e, recv, args, kw, saved=saved, events=events):
                    order = ["fname", "X", "fmt", "delimiter", "newline", "header", "footer", "comments"]
                    saved.update(dict(zip(order, args)))
                    saved.update(kw)
                    events.append(("savetxt",))
                    return None

                def other(name_):
                    def f(ex_, e, recv, args, kw, events=events):
                        if isinstance(recv, MObj) and recv.cls in ("Engine", "RuleBlock", "Rule", "InputVariable", "OutputVariable"):
                            events.append((f"{recv.cls}.{name_}",))  # anything done to the engine besides restart / process shows in the sequence
                            return None
                        raise Unknown(f"{fn.qualname}: {name_}() on something that is not part of the model engine")
                    return f

                hooks = {"method:restart": restart, "method:process": process, "subscript": subscript, "method:savetxt": savetxt,
                         "method:is_loaded": lambda ex_, e, recv, args, kw: True,
                         **{f"method:{nm_}": other(nm_) for nm_ in ("load_rules", "reload_rules", "unload_rules", "clear", "load", "unload", "deactivate", "activate", "defuzzify")},
                         "method:atleast_2d": lambda ex_, e, recv, args, kw: args[0], "method:asarray": lambda ex_, e, recv, args, kw: args[0],
                         "method:hstack": lambda ex_, e, recv, args, kw: ("hstack", tuple(args[0])),
                         "method:column_stack": lambda ex_, e, recv, args, kw: ("hstack", tuple(args[0])),
                         "method:concatenate": lambda ex_, e, recv, args, kw: ("hstack", tuple(args[0])),
                         "method:header": lambda ex_, e, recv, args, kw: ("header", args[0] if args else None)}
                ex = AbsExec(fn.qualname, hooks, helpers={k: v for k, v in fn.cls.methods.items() if k.startswith("_") and not k.startswith("__")})
                ex.concrete_strings = True
                decimals = 3 + cases % 5  # the number of decimals in force while the table is written: another one in every run
                ex.globals = {"settings": MObj("Settings", {"decimals": decimals, "debugging": False})}
                env = {names[0]: exporter, names[1]: engine, names[2]: Opaque("writer"), names[3]: table, "np": Opaque("np"), "numpy": Opaque("np")}
                what = f"write(table of {ncols} column(s)) with input_values={fin}, output_values={fout}, headers={fhead}"
                outcome = "ok"
                try:
                    ex.block(list(node.body), env)
                except _Return:
                    pass
                except Raised as r_:
                    outcome = r_.cls
                except Internal as i_:
                    outcome = f"internal {i_.cls}"
                if ncols < n_inputs:
                    if outcome != "ValueError" or events:
                        note("too-few", f"{what}: fewer columns than input variables must be rejected with ValueError before the engine is touched "
                             f"(outcome {outcome}, events {[e_[0] for e_ in events]})")
                    continue
                if outcome != "ok":
                    note("order", f"{what}: raises {outcome}")
                    continue
                kinds = [e_[0] for e_ in events]
                if kinds != ["restart", "process", "savetxt"]:
                    note("order", f"{what}: the engine sees {kinds}; specified: restart, (inputs assigned), one process, then the table is written")
                    continue
                proc = events[1]
                want_cols = tuple(("column", i) for i in range(n_inputs))
                if proc[1] != want_cols:
                    note("columns", f"{what}: at process() the input variables hold {proc[1]}, specified column i for variable i")
                X = saved.get("X")
                want_blocks: list[Any] = []
                if fin:
                    want_blocks.append(("fresh", "inputs", 2))
                if fout:
                    want_blocks.append(("fresh", "outputs", 2))
                got_blocks = list(X[1]) if isinstance(X, tuple) and X and X[0] == "hstack" else X
                if not want_blocks:
                    want_blocks = [[]]
                if got_blocks != want_blocks:
                    stale = any(isinstance(b, tuple) and b and b[0] == "stale" for b in (got_blocks if isinstance(got_blocks, list) else []))
                    sw = [b[1] for b in got_blocks if isinstance(b, tuple) and len(b) > 1] if isinstance(got_blocks, list) else got_blocks
                    if stale:
                        note("read-after-process", f"{what}: the values written were read from the engine before it was processed")
                    elif isinstance(got_blocks, list) and sorted(map(repr, got_blocks)) == sorted(map(repr, want_blocks)):
                        note("column-order", f"{what}: outputs are written before inputs")
                    else:
                        note("switches", f"{what}: writes the blocks {sw}; specified inputs iff input_values, outputs iff output_values")
                fmt = saved.get("fmt")
                dec_ok = isinstance(fmt, str) and fmt.replace(" ", "") in (f"%0.{decimals}f", f"%.{decimals}f")
                if not dec_ok:
                    note("format", f"{what}: the number format is {fmt!r}; specified fixed point with settings.decimals read when the table is written")
                if saved.get("delimiter") != ("separator",):
                    note("delimiter", f"{what}: the column delimiter is {saved.get('delimiter')!r}, specified self.separator")
                hdr = saved.get("header", "")
                want_h = ("header", engine) if fhead else ""
                if hdr != want_h or saved.get("comments", "# ") != "":
                    note("header", f"{what}: header {('present' if hdr else 'absent')} / comment prefix {saved.get('comments', '# ')!r}; specified the header line iff "
                         "self.headers, without a comment prefix")
    except Unknown as u:
        raise AnalysisError(str(u)) from None

    def verdict(construct: str, kinds: list[str], ok_text: str) -> None:
        hits = [bad[k] for k in kinds if k in bad]
        check.require(not hits, "W4", f"FldExporter.write/{construct}", ok_text if not hits else hits[0], loc(fn), {"cases": cases}, exhaustive=True, cases=cases)

    verdict("order", ["order", "too-few"], "the engine is restarted, then given the input columns, then processed once; too few columns are rejected first")
    verdict("columns", ["columns"], "input variable i receives column i of the table")
    verdict("switches", ["switches"], "input columns are written iff input_values, output columns iff output_values")
    verdict("column-order", ["column-order"], "inputs come before outputs in every row")
    verdict("read-after-process", ["read-after-process"], "values are read from the engine after processing")
    verdict("format", ["format"], "numbers are printed fixed-point with settings.decimals decimals, read when the table is written")
    verdict("delimiter", ["delimiter"], "columns are separated by self.separator")
    verdict("header", ["header"], "one header line (self.header(engine)) iff self.headers, without comment prefix")


def header_agreement(check: Check) -> None:
    p = check.program
    fn = p.func("FldExporter.header")
    check.analysed(fn)
    r = Resolver(p, fn)
    cfg = r.cfg
    eng = fn.params[1].name
    sites = []
    for coll, which in ((f"{eng}.input_variables", "in"), (f"{eng}.output_variables", "out")):
        # (a) a comprehension over the collection taking .name of each element
        for n in cfg.stmt_nodes():
            for e in cfg.exprs_of(n):
                for x in ast.walk(e):
                    if isinstance(x, (ast.ListComp, ast.GeneratorExp)) and len(x.generators) == 1 and unparse(x.generators[0].iter) == coll and \
                            isinstance(x.elt, ast.Attribute) and x.elt.attr == "name" and isinstance(x.generators[0].target, ast.Name) and \
                            unparse(x.elt.value) == x.generators[0].target.id:
                        gs = [(path_of(r.term(g, gn)), pol) for g, pol, gn in cfg.must_guards(n)]
                        sites.append((which, n, gs))
        # (b) a loop over the collection appending element.name
        for h_, base_, d_ in loops_over(r, lambda b_: is_path(b_, coll)):
            for n in cfg.loop_body(h_):
                for c_ in cfg.calls_in(n):
                    if isinstance(c_.func, ast.Attribute) and c_.func.attr == "append" and c_.args:
                        t_ = r.term(c_.args[0], n)
                        if t_[0] == "attr" and t_[2] == "name" and t_[1][0] == "elem" and d_ == "forward":
                            gs = [(path_of(r.term(g, gn)), pol) for g, pol, gn in cfg.must_guards(h_)]
                            sites.append((which, h_, gs))
    ins = [s for s in sites if s[0] == "in"]
    outs = [s for s in sites if s[0] == "out"]
    ok = len(ins) == 1 and len(outs) == 1 and ins[0][2] == [("self.input_values", True)] and outs[0][2] == [("self.output_values", True)]
    check.require(ok, "S4", "FldExporter.header/switches", "the header lists input names iff input_values and output names iff output_values (as write does)"
                  if ok else f"header guards: {[(s[0], s[2]) for s in sites]}", loc(fn))
    ord_ok = ok and outs[0][1] in cfg.reach([s for s, _ in ins[0][1].succ]) and ins[0][1] not in cfg.reach([s for s, _ in outs[0][1].succ])
    rets = [r.term(n.ast.value, n) for n in cfg.stmt_nodes() if isinstance(n.ast, ast.Return) and n.ast.value is not None]
    join_ok = any(t[0] == "call" and t[1] == ("attr", ("attr", ("param", "self"), "separator"), "join") for t in rets)
    check.require(ord_ok and join_ok, "S4", "FldExporter.header/order", "input names precede output names, joined by the separator", loc(fn))


def _write_param(p, i: int) -> str:
    """Name of the i-th parameter (self = 0) of FldExporter.write, for calls that pass it by keyword."""
    prm = p.func("FldExporter.write").params
    return prm[i].name if len(prm) > i else ""


def reader(check: Check) -> None:
    """G9 [E up to the bound]: `FldExporter.write_from_reader` interpreted abstractly (sa/absexec.py) on every sequence of up to three
    lines drawn from {blank, comment, data} and skip_lines in 0..3: the table handed to `write` holds exactly the data lines whose
    index (counting every line) is >= skip_lines, in order, each split at whitespace and converted to numbers."""
    from ..absexec import AbsExec, Internal, MObj, Opaque, Raised, Unknown, _Return

    p = check.program
    fn = p.func("FldExporter.write_from_reader")
    check.analysed(fn)
    node = fn.analysis_node
    names = [a.arg for a in node.args.args]
    if len(names) < 5:
        raise AnalysisError("FldExporter.write_from_reader: signature not recognised")
    bad: list[str] = []
    cases = 0

    def line(kind: str, k: int) -> MObj:
        return MObj("Line", {"kind": kind, "id": k, "__bool__": kind != "blank", "__len__": 0 if kind == "blank" else 5})

    def strip(ex_, e, recv, args, kw):
        return recv

    def startswith(ex_, e, recv, args, kw):
        return isinstance(recv, MObj) and recv.fields.get("kind") == "comment" and args and args[0] == "#"

    def split(ex_, e, recv, args, kw):
        if isinstance(recv, MObj) and recv.cls == "Line":
            if (args and args[0] is not None) or kw.get("sep") is not None:
                # the values of a data line are separated by whitespace - any amount of blanks or tabs (aligned columns): split at one given
                # separator the line does not fall into its values
                return [] if recv.fields["kind"] == "blank" else [("field", recv.fields["id"], 0), ("not a value: the text between two separators",), ("field", recv.fields["id"], 1)]
            return [] if recv.fields["kind"] == "blank" else [("field", recv.fields["id"], 0), ("field", recv.fields["id"], 1)]
        raise Unknown(f"{fn.qualname}: split of something that is not a line")

    def subscript(ex_, e, base, idx):
        if base.cls == "Line" and idx in (0,):
            if base.fields["kind"] == "blank":
                raise Internal("IndexError", "first character of an empty line", e)
            return "#" if base.fields["kind"] == "comment" else "1"
        if base.cls == "Line" and idx == ("slice", None, 1, None):
            return "" if base.fields["kind"] == "blank" else ("#" if base.fields["kind"] == "comment" else "1")
        raise Unknown(f"{fn.qualname}: subscript {idx} of a line is outside the model")

    try:
        for n in range(0, 4):
            for kinds in itertools.product(("blank", "comment", "data"), repeat=n):
                for skip in range(0, 4):
                    cases += 1
                    lines = [line(k, i) for i, k in enumerate(kinds)]
                    got: dict[str, Any] = {}

                    def write(ex_, e, recv, args, kw, got=got):
                        got["table"] = args[2] if len(args) > 2 else kw.get(_write_param(p, 3))
                        return None

                    hooks = {"method:strip": strip, "method:lstrip": strip, "method:rstrip": strip, "method:startswith": startswith, "method:split": split,
                             "subscript": subscript, "method:write": write, "method:readlines": lambda ex_, e, recv, args, kw, lines=lines: list(lines),
                             "method:asarray": lambda ex_, e, recv, args, kw: args[0], "method:array": lambda ex_, e, recv, args, kw: args[0],
                             "to_float": lambda ex_, e, args, kw: ("number", args[0]), "method:to_float": lambda ex_, e, recv, args, kw: ("number", args[0]),
                             "float": lambda ex_, e, args, kw: ("number", args[0])}
                    ex = AbsExec(fn.qualname, hooks, helpers={k: v for k, v in fn.cls.methods.items() if k.startswith("_") and not k.startswith("__")})
                    reader_ = MObj("Reader", {"lines": lines})
                    env = {names[0]: MObj("FldExporter", {"separator": " ", "headers": True, "input_values": True, "output_values": True}), names[1]: Opaque("engine"), names[2]: Opaque("writer"), names[3]: reader_, names[4]: skip,
                           "np": Opaque("np"), "Op": Opaque("Op")}
                    # iterating the reader itself yields its lines
                    ex.iterate_hook = lambda v, lines=lines: list(lines) if v is reader_ else None  # type: ignore[attr-defined]
                    what = f"lines {list(kinds)}, skip_lines={skip}"
                    try:
                        ex.block(list(node.body), env)
                    except _Return:
                        pass
                    except (Raised, Internal) as err:
                        if len(bad) < 3:
                            bad.append(f"{what}: raises {err.cls}")
                        continue
                    want = [[("number", ("field", i, 0)), ("number", ("field", i, 1))] for i, k in enumerate(kinds) if k == "data" and i >= skip]
                    tbl = got.get("table")
                    if tbl != want and len(bad) < 3 and isinstance(tbl, list) and any(isinstance(r_, list) and len(r_) == 3 for r_ in tbl):
                        bad.append(f"{what}: a data line is split at a given separator instead of at any whitespace: values separated by several blanks or a tab are not read")
                    elif tbl != want and len(bad) < 3:
                        kept = [r_[0][1][1] for r_ in tbl] if isinstance(tbl, list) and all(isinstance(r_, list) and r_ and isinstance(r_[0], tuple) for r_ in tbl) else tbl
                        bad.append(f"{what}: tabulates the lines {kept}, specified {[i for i, k in enumerate(kinds) if k == 'data' and i >= skip]} "
                                   "(a line is tabulated iff its index >= skip_lines and it is neither blank nor a comment)")
    except Unknown as u:
        raise AnalysisError(str(u)) from None
    check.require(not bad, "G9", "FldExporter.write_from_reader/skip",
                  f"a line is tabulated iff its index >= skip_lines and it is neither blank nor a comment ({cases} line sequences x skip counts)" if not bad else
                  "reader disagrees with the specification: " + bad[0], loc(fn), {"cases": cases}, exhaustive=True, cases=cases)


# ------------------------------------------------------------------------------------------------ G11 grid as a whole
def grid_semantics(check: Check) -> None:
    """G11 [E up to the stated bounds]: `FldExporter.write_from_scope` (together with `Op.increment`) is interpreted abstractly
    (sa/absexec.py) on engines with 1-3 input variables whose range bounds and current values are *symbols*, for both scopes, every
    requested size up to the bound and every set of active variables; the matrix handed to `write` must be the grid of the statement:

      each variable = v  -> v values per active input;   all variables = v -> k values, k the largest integer with k^inputs <= v
      value j of input i = minimum_i + j * (maximum_i - minimum_i) / (k - 1)   (k = 1: the minimum), j = 0..k-1, inclusive ends
      inactive inputs keep their current value;  rows in lexicographic order, the last input varying fastest.

    Floating point enters in one place only, the estimate of the k-th root: `round(pow(v, 1/n))` is modelled as *any* integer within
    one of the exact root (three runs), so the verdict is about the integer correction that follows, not about a particular libm."""
    import itertools
    from fractions import Fraction

    from ..absexec import AbsExec, Internal, Lin, MObj, Opaque, Raised, Unknown, _Return

    p = check.program
    fn = p.func("FldExporter.write_from_scope")
    inc = p.func("Operation.increment")
    check.analysed(fn)
    check.analysed(inc)
    node = fn.analysis_node
    params = [a.arg for a in node.args.args]
    if len(params) < 6:
        raise AnalysisError("FldExporter.write_from_scope: signature not recognised")
    _self, p_engine, p_writer, p_values, p_scope, p_active = params[:6]
    ALL, EACH = ("enum", "AllVariables"), ("enum", "EachVariable")
    ns = MObj("class", {"ScopeOfValues": MObj("enum", {"AllVariables": ALL, "EachVariable": EACH})})
    bad: dict[str, str] = {}
    cases = 0
    max_n = 3
    sizes = {1: range(1, 8), 2: range(1, 18), 3: range(1, 30)} if check.tier != "thorough" else {1: range(1, 12), 2: range(1, 40), 3: range(1, 70)}

    def iroot(v: int, n: int) -> int:
        k = 1
        while (k + 1) ** n <= v:
            k += 1
        return k

    def expected(vars_: list[MObj], active: list[bool], k: int) -> list[list[Any]]:
        axes = []
        for v_, act in zip(vars_, active):
            if not act:
                axes.append([v_.fields["value"]])
            else:
                mn, dr = v_.fields["minimum"], v_.fields["drange"]
                axes.append([mn.add(dr.scale(Fraction(j, max(1, k - 1)))) for j in range(k)])
        return [list(row) for row in itertools.product(*axes)]

    def note(kind: str, text: str) -> None:
        bad.setdefault(kind, text)

    def new_exporter() -> MObj:
        """An exporter as its constructor leaves it (each statement of __init__ interpreted with the default arguments; what the interpreter cannot
        follow is skipped). The same exporter then writes every grid of one scope: what it keeps from one export must not shape the next."""
        from ..absexec import Closure

        me = MObj("FldExporter", {})
        init = fn.cls.lookup("__init__")
        if init is None:
            return me
        a = init.node.args
        ex0 = AbsExec(init.qualname, {})
        env0: dict[str, Any] = {a.args[0].arg: me}
        names = [x.arg for x in a.args[1:]]
        for nm, d in zip(names[len(names) - len(a.defaults):], a.defaults):
            try:
                env0[nm] = ex0.ev(d, {})
            except (Unknown, Internal, Raised):
                env0[nm] = Opaque(nm)
        for nm in names:
            env0.setdefault(nm, Opaque(nm))
        for st in init.node.body:
            try:
                ex0.stmt(st, env0)
            except (Unknown, Internal, Raised, _Return):
                pass
        return me

    try:
        for n in range(1, max_n + 1):
            for scope in (EACH, ALL):
                exporter = new_exporter()
                for v in (range(1, 5) if scope == EACH else sizes[n]):
                    subsets = [tuple(c) for r_ in range(n + 1) for c in itertools.combinations(range(n), r_)] if (scope == EACH and v <= 3) or v in (1, 4, 9) else [tuple(range(n))]
                    for act in subsets + [None]:
                        for off in ((0,) if scope == EACH else (-1, 0, 1)):
                            cases += 1
                            vars_ = [MObj("InputVariable", {"name": f"in{i}", "minimum": Lin.sym(f"min{i}"), "maximum": Lin.sym(f"min{i}").add(Lin.sym(f"range{i}")),
                                                            "drange": Lin.sym(f"range{i}"), "value": Lin.sym(f"cur{i}")}) for i in range(n)]
                            engine = MObj("Engine", {"input_variables": vars_, "name": Opaque("name")})
                            got: dict[str, Any] = {}

                            def write(ex_, e, recv, args, kw, got=got):
                                got["matrix"] = args[2] if len(args) > 2 else kw.get(_write_param(p, 3))
                                return None

                            def root_estimate(ex_, e, args, kw, n=n, off=off, v=v):
                                # round(pow(values, 1/inputs)) or pow(...): an integer within one of the exact root
                                return max(0, iroot(v, n) + off)

                            hooks = {"method:write": write, "pow": root_estimate, "round": lambda ex_, e, args, kw: args[0],
                                     "method:take": lambda ex_, e, recv, args, kw: args[0], "method:array": lambda ex_, e, recv, args, kw: args[0],
                                     "method:asarray": lambda ex_, e, recv, args, kw: args[0]}
                            ex = AbsExec(fn.qualname, hooks, helpers={**{k: v for k, v in fn.cls.methods.items() if k.startswith("_") and not k.startswith("__")}, "increment": inc})
                            env: dict[str, Any] = {_self: exporter, p_engine: engine, p_writer: Opaque("writer"), p_values: v, p_scope: scope,
                                                   p_active: (None if act is None else frozenset(vars_[i] for i in act)),
                                                   "FldExporter": ns, "Op": Opaque("Op"), "Operation": Opaque("Op"), "np": Opaque("np")}
                            what = (f"{n} input(s), {'each variable' if scope == EACH else 'all variables'} = {v}, active = "
                                    f"{'all (default)' if act is None else list(act)}" + (f", root estimate off by {off:+d}" if off else ""))
                            try:
                                ex.block(list(node.body), env)
                            except _Return:
                                pass
                            except Raised as r:
                                note("raises", f"{what}: raises {r.cls}")
                                continue
                            except Internal as i:
                                note("raises", f"{what}: internal {i.cls} ({i.why})")
                                continue
                            k = v if scope == EACH else iroot(v, n)
                            active = [True] * n if act is None else [i in act for i in range(n)]
                            want = expected(vars_, active, k)
                            m = got.get("matrix")
                            if not isinstance(m, list):
                                note("no-write", f"{what}: nothing is handed to write()")
                                continue
                            rows = [list(r_) if isinstance(r_, (list, tuple)) else [r_] for r_ in m]
                            if len(rows) != len(want):
                                note("size", f"{what}: {len(rows)} rows, specified {len(want)} (k = {k} values per active input)")
                            elif sorted(map(repr, rows)) != sorted(map(repr, want)):
                                diff = next((a, b) for a, b in zip(rows, want) if a != b)
                                note("values", f"{what}: a row holds {diff[0]}, specified {diff[1]}")
                            elif rows != want:
                                diff = next((i_, a, b) for i_, (a, b) in enumerate(zip(rows, want)) if a != b)
                                note("order", f"{what}: row {diff[0]} is {diff[1]}, specified {diff[2]} (lexicographic, last input fastest)")
    except Unknown as u:
        raise AnalysisError(str(u)) from None

    def verdict(construct: str, kinds: list[str], ok_text: str) -> None:
        hits = [bad[k_] for k_ in kinds if k_ in bad]
        check.require(not hits, "G11", f"FldExporter.write_from_scope/{construct}", ok_text if not hits else hits[0], loc(fn), {"cases": cases}, exhaustive=True, cases=cases)

    verdict("grid-size", ["size"], f"the number of rows is k^(active inputs) with k = v (each variable) or the largest k with k^inputs <= v (all variables), for a root "
            f"estimate within one of the exact root ({cases} abstract instances)")
    verdict("grid-values", ["values", "no-write", "raises"], "every row holds minimum + j * range / (k - 1) for the active inputs (both ends included, the minimum alone for "
            "k = 1) and the current value for the inactive ones")
    verdict("grid-order", ["order"], "rows are in lexicographic order with the last input varying fastest")
