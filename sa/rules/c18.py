"""C18 - FuzzyLite Dataset export is a faithful tabulation of the engine."""

from __future__ import annotations

import ast
import itertools
from typing import Any

from ..guards import RoleEval, paths, simulate, weak_orders
from ..pm import AnalysisError, unparse
from ..report import Check
from ..sym import PathResolver, Resolver, Term, path_of, show, walk
from .common import body_entry, const_value, is_path, iter_base, iter_precedes, loc, loops_over, strip

EXPLANATION = (
    "static analysis of FldExporter.write_from_scope / write / header / write_from_reader and Op.increment: taint rule "
    "on the grid size (a truncated floating n-th root must not reach the resolution; a rounded one needs an integer "
    "k**n comparison as exactness witness), grid-point formula origins, the mixed-radix counter decided by abstract "
    "interpretation over small concrete values, write plumbing (restart -> column i to variable i -> process -> "
    "inputs/outputs by their own switches -> savetxt format/delimiter/header), header/write switch agreement, reader "
    "skip predicate over all orderings of (line index, skip_lines) x blank x comment; the row loop gives an input its grid value iff "
    "it is an active variable, decided for resolution 0 (one-point grid) and > 0 (G10); G11 - write_from_scope together with Op.increment is "
    "interpreted abstractly (sa/absexec.py) on engines with 1-3 inputs whose bounds and current values are symbols, for both scopes, every "
    "size up to a bound and every active set, with the floating root estimate modelled as any integer within one of the exact root: the "
    "matrix handed to write() is exactly the specified grid (size, inclusive equidistant values as exact linear forms, lexicographic order)"
)
ASSUMPTIONS = ["numpy.savetxt / hstack semantics; the printed digits are not decided", "round(pow(v, 1/n)) is within one of the exact integer root (G11 runs the integer correction for all three estimates)", "grid bounds: 1-3 input variables, sizes up to 29 (quick) / 69 (thorough)"]
FLOORS = {"G11": 3, "G10": 1, "N1": 2, "G8": 4, "W4": 8, "S4": 2, "G9": 1, "N2": 3}

TRUNCATORS = {"int", "math.floor", "numpy.floor", "math.trunc", "numpy.trunc", "numpy.fix", "numpy.floor_divide"}
ROOT_CALLS = {"pow", "math.pow", "numpy.power", "numpy.float_power"}
ROOT_FUNCS = {"math.sqrt", "numpy.sqrt", "numpy.cbrt", "math.cbrt"}


def is_fractional(t: Term) -> bool:
    """An exponent that is not an integer by construction: contains a true division or a non-integral float constant."""
    for s in walk(t):
        if s[0] == "binop" and s[1] == "/":
            return True
        if s[0] == "const" and isinstance(s[1], float) and s[1] != int(s[1]):
            return True
    return False


def float_roots(t: Term) -> list[Term]:
    out = []
    for s in walk(t):
        if s[0] == "binop" and s[1] == "**" and is_fractional(s[3]):
            out.append(s)
        elif s[0] == "call" and s[1][0] == "global" and s[1][1] in ROOT_CALLS and len(s[2]) >= 2 and is_fractional(s[2][1]):
            out.append(s)
        elif s[0] == "call" and s[1][0] == "global" and s[1][1] in ROOT_FUNCS:
            out.append(s)
    return out


def truncated_roots(t: Term) -> list[Term]:
    out = []
    for s in walk(t):
        if s[0] == "call" and s[1][0] == "global" and s[1][1] in TRUNCATORS and any(float_roots(a) for a in s[2]):
            # a truncation directly over a root-derived value, unless a rounding sits in between
            for a in s[2]:
                if float_roots(a) and not _rounded(a):
                    out.append(s)
        if s[0] == "binop" and s[1] == "//" and (float_roots(s[2]) or float_roots(s[3])):
            out.append(s)
    return out


def _rounded(t: Term) -> bool:
    """Every float root inside t is enclosed by round()/rint()."""
    if not float_roots(t):
        return True
    if t[0] == "call" and t[1][0] == "global" and t[1][1] in ("round", "numpy.round", "numpy.rint", "numpy.around"):
        return True
    if t[0] == "call" and t[1][0] == "global" and (t[1][1] in ROOT_FUNCS or (t[1][1] in ROOT_CALLS and len(t[2]) >= 2 and is_fractional(t[2][1]))):
        return False
    if t[0] in ("call",):
        return all(_rounded(a) for a in t[2])
    if t[0] == "binop":
        if t[1] == "**" and is_fractional(t[3]):
            return False
        return _rounded(t[2]) and _rounded(t[3])
    if t[0] == "unop":
        return _rounded(t[2])
    if t[0] == "phi":
        return all(_rounded(a) for a in t[1])
    return not float_roots(t)


def run(check: Check) -> None:
    grid_size(check)
    active_variables(check)
    grid_semantics(check)
    increment(check)
    write_plumbing(check)
    header_agreement(check)
    reader(check)
    check.exhaustive_parts += ["Op.increment over positions/values 0..2", "reader skip predicate over all orderings"]


# ------------------------------------------------------------------------------------------------ N1 / N2
def grid_size(check: Check) -> None:
    p = check.program
    fn = p.func("FldExporter.write_from_scope")
    check.analysed(fn)
    r = Resolver(p, fn)
    cfg = r.cfg
    values = fn.params[3].name if len(fn.params) > 3 else "values"
    scope = fn.params[4].name if len(fn.params) > 4 else "scope"

    def classify(t: Term, e):
        if t[0] == "cmp" and t[1] == ("==",) and ("param", scope) in t[2]:
            other = [x for x in t[2] if x != ("param", scope)]
            if other and other[0][0] == "global" and other[0][1].endswith("ScopeOfValues.AllVariables"):
                return "all_variables"
            if other and other[0][0] == "global" and other[0][1].endswith("ScopeOfValues.EachVariable"):
                return "each_variable"
        if t == ("param", "active_variables"):
            return "active_given"
        if t[0] == "cmp" and t[1] == ("is",) and t[2] == (("param", "active_variables"), ("const", None)):
            return "active_none"
        if t[0] == "cmp" and t[1] == ("==",) and any(x[0] == "call" and x[1] == ("global", "len") for x in t[2]) and ("const", 0) in t[2]:
            return "no_inputs"
        return None

    # the statement that consumes the resolution: max_values = [resolution if ...]
    uses = [n for n in cfg.stmt_nodes() if any(isinstance(x, ast.Name) and x.id == "resolution" for e in cfg.exprs_of(n) for x in ast.walk(e))
            and not any(d.name == "resolution" for d in cfg.defs_at(n))]
    res_name = "resolution"
    if not uses:
        raise AnalysisError("FldExporter.write_from_scope: the grid resolution variable is not recognised")
    first = [s for s, _ in cfg.entry.succ][0]
    results = {}
    for scope_all in (True, False):
        ev = RoleEval(r, classify)
        env = {"all_variables": scope_all, "each_variable": not scope_all, "active_none": True, "active_given": False, "no_inputs": False}
        terms = []
        for pa in paths(cfg, first, ev, env, {uses[0]}, skip_loops=True):
            if pa[-1] is not uses[0]:
                continue
            pr = PathResolver(p, fn, pa)
            terms.append(pr.at(ast.Name(id=res_name, ctx=ast.Load()), len(pa) - 1))
        results[scope_all] = terms
    # all variables: every path-sensitive term plus the flow-insensitive one (which includes loop-carried definitions)
    if not results[True]:
        raise AnalysisError("FldExporter.write_from_scope: no path computes the resolution for AllVariables")
    flow = r.name_term(res_name, uses[0])
    flow_all = [a for a in (flow[1] if flow[0] == "phi" else [flow]) if a not in results[False]]
    all_terms = list(dict.fromkeys(results[True] + flow_all))
    trunc = [x for t in all_terms for x in truncated_roots(t)]
    roots = [x for t in all_terms for x in float_roots(t)]
    shown = show(results[True][-1])[:300]
    if trunc:
        check.violation("N1", "FldExporter.write_from_scope/grid-size",
                        f"the number of values per input is a truncated floating-point root ({show(trunc[0])[:90]}): pow(64, 1/3) is "
                        "3.9999999999999996, so perfect powers lose a grid value per input (64 -> 27 rows, 1000 -> 729)",
                        loc(fn, uses[0]), {"resolution": shown})
    elif roots:
        witness = _integer_power_witness(r, cfg, values)
        check.require(witness, "N1", "FldExporter.write_from_scope/grid-size",
                      "a rounded floating root is corrected by integer comparisons of k**inputs with the requested size"
                      if witness else f"a floating root estimate ({show(roots[0])[:80]}) reaches the grid size without an integer k**n check",
                      loc(fn, uses[0]), {"resolution": shown})
    else:
        check.ok("N1", "FldExporter.write_from_scope/grid-size", "the grid size is computed without a floating-point root",
                 loc(fn, uses[0]), {"resolution": shown})
    # the requested size and the number of inputs both reach the all-variables resolution (through data or loop conditions)
    tests = [r.term(h_.ast, h_) for h_ in cfg.loop_heads() if h_.kind == "test"] + \
            [r.term(n_.ast, n_) for n_ in cfg.stmt_nodes() if n_.kind == "test" and cfg.enclosing_loops(n_)]
    pool = all_terms + tests
    dep_values = any(s == ("param", values) for t in pool for s in walk(t))
    dep_inputs = any(s[0] == "call" and s[1] == ("global", "len") and s[2] and path_of(s[2][0]) == "engine.input_variables" for t in pool for s in walk(t))
    check.require(dep_values and dep_inputs, "N1", "FldExporter.write_from_scope/grid-size-inputs",
                  "k is computed from the requested size and the number of input variables" if dep_values and dep_inputs else
                  f"resolution = {shown[:120]}", loc(fn, uses[0]))
    # each variable: v values per input -> resolution v - 1
    ok = bool(results[False]) and all(t == ("binop", "-", ("param", values), ("const", 1)) for t in results[False])
    check.require(ok, "N2", "FldExporter.write_from_scope/each-variable", "with `each variable = v` the resolution is v - 1 (v points per input)"
                  if ok else f"resolution = {[show(t) for t in results[False]]}", loc(fn, uses[0]))
    # grid point formula: minimum + sample * drange / max(1, resolution)
    app = [(n, c) for n, c in cfg.find_calls("row.append")]
    point_ok = False
    for n, c in app:
        t = r.term(c.args[0], n)
        if t[0] == "binop" and t[1] == "+":
            mins = [x for x in (t[2], t[3]) if x[0] == "attr" and x[2] == "minimum"]
            prod = [x for x in (t[2], t[3]) if x[0] == "binop" and x[1] == "*"]
            if mins and prod:
                fac = prod[0][2:4]
                samp = [x for x in fac if x[0] == "sub" and x[2][0] == "index"]
                dx = [x for x in fac if x[0] == "binop" and x[1] == "/" and x[2][0] == "attr" and x[2][2] == "drange" and x[2][1] == mins[0][1]]
                if samp and dx and any(s[0] in ("param", "binop", "phi", "call") for s in walk(dx[0][3])):
                    point_ok = samp[0][2][1] == mins[0][1][1] if mins[0][1][0] == "elem" else True
    check.require(point_ok, "N2", "FldExporter.write_from_scope/grid-point",
                  "grid value i of an input is minimum + i * (maximum - minimum) / max(1, resolution) for that same input", loc(fn, app[0][0] if app else fn.node))
    # enumeration: Op.increment(sample, min, max) with the default (last) position, loop until it reports overflow
    incs = [(n, r.term(c, n)) for n, c in cfg.all_calls() if r.term(c.func, n) == ("global", "fuzzylite.operation.Operation.increment")]
    ok = len(incs) == 1 and len(incs[0][1][2]) == 3 and not incs[0][1][3]
    check.require(ok, "N2", "FldExporter.write_from_scope/enumeration",
                  "grid points are enumerated with the mixed-radix counter starting from its default (last) position", loc(fn, incs[0][0] if incs else fn.node))


def active_variables(check: Check) -> None:
    """G10 [E]: in the row loop of write_from_scope, input variable i gets its grid value iff it is one of the active variables and its
    current value otherwise - for a one-point grid (resolution 0) as for any other. One iteration is interpreted under
    {active, not active} x {resolution = 0, resolution > 0}."""
    from ..guards import RoleEval, simulate
    from .common import body_entry, iter_base, loops_over

    p = check.program
    fn = p.func("FldExporter.write_from_scope")
    r = Resolver(p, fn)
    cfg = r.cfg
    loops = [lp for lp in loops_over(r, lambda b: is_path(b, "engine.input_variables")) if cfg.enclosing_loops(lp[0])]
    if not loops:
        raise AnalysisError("FldExporter.write_from_scope: row loop over engine.input_variables not found")
    head = loops[0][0]
    body = cfg.loop_body(head)
    grid, current = [], []
    for n, c in cfg.find_calls(".append"):
        if n not in body or not c.args:
            continue
        t = r.term(c.args[0], n)
        parts = list(walk(t))
        if any(s[0] == "attr" and s[2] == "minimum" for s in parts) and any(s[0] == "attr" and s[2] in ("drange", "maximum") for s in parts):
            grid.append(n)
        elif any(s[0] == "attr" and s[2] in ("value", "_value") for s in parts):
            current.append(n)
    if not grid or not current:
        raise AnalysisError("FldExporter.write_from_scope: grid-value / current-value appends of the row loop not recognised")
    res_terms = {t for n in grid for t in _resolution_terms(r, n)}

    def classify(t: Term, e):
        if t[0] == "cmp" and t[1] == ("in",) and t[2][0][0] == "elem" and is_path(iter_base(t[2][0][1])[0], "engine.input_variables") and \
                any(s == ("param", "active_variables") for s in walk(t[2][1])):
            return "active"
        if t in res_terms:
            return "res"
        return None

    rows = 0
    bad = []
    nondet = False
    ev = RoleEval(r, classify)
    for active in (True, False):
        for res, zero in ((0, 0), (1, 0)):
            env = {"active": active, "res": res, "const:0.0": zero, "const:1.0": 1, "const:0": zero}
            may, must = simulate(cfg, body_entry(head), ev, env, set(grid + current), {x for x in cfg.nodes if x not in body})
            rows += 1
            g_may, g_must = any(n in may for n in grid), any(n in must for n in grid)
            c_may, c_must = any(n in may for n in current), any(n in must for n in current)
            if g_may != g_must or c_may != c_must:
                nondet = True
                continue
            if g_must != active or c_must != (not active):
                bad.append(f"{'active' if active else 'inactive'} variable, resolution {'0 (one grid point)' if res == 0 else '> 0'}: the row gets "
                           f"{'the grid value' if g_must else 'the current value of the variable' if c_must else 'nothing'}")
    if nondet:
        check.violation("G10", "FldExporter.write_from_scope/active-variables", "whether an input gets its grid value depends on something other than its "
                        f"membership in the active variables and the resolution: {sorted(set(ev.unknown_atoms))[:3]}", loc(fn, head))
        return
    check.require(not bad, "G10", "FldExporter.write_from_scope/active-variables",
                  "an input variable gets its grid value iff it is active, its current value otherwise (also on a one-point grid)" if not bad else bad[0] +
                  " (specified: grid value iff active)", loc(fn, grid[0]), {"cases": rows, "disagreements": bad}, exhaustive=True, cases=rows)


def _resolution_terms(r: Resolver, n) -> list[Term]:
    """The resolution as it appears in the grid-value expression: the divisor under max(1, .) / the plain divisor."""
    out = []
    for c in r.cfg.calls_in(n):
        for a in c.args:
            for s in walk(r.term(a, n)):
                if s[0] == "binop" and s[1] == "/" and s[2][0] == "attr" and s[2][2] == "drange":
                    d = s[3]
                    if d[0] == "call" and d[1] == ("global", "max") and len(d[2]) == 2:
                        out += [x for x in d[2] if x[0] != "const"]
                    else:
                        out.append(d)
    return out


def _integer_power_witness(r: Resolver, cfg, values: str) -> bool:
    """A loop test comparing an integer power (exponent not fractional) of the candidate with the requested size."""
    for h in cfg.loop_heads():
        if h.kind != "test":
            continue
        t = r.term(h.ast, h)
        for s in walk(t):
            if s[0] == "cmp":
                sides = list(s[2])
                has_pow = [x for x in sides if any(y[0] == "binop" and y[1] == "**" and not is_fractional(y[3]) for y in walk(x))]
                has_val = [x for x in sides if any(y == ("param", values) for y in walk(x)) and x not in has_pow]
                if has_pow and has_val:
                    return True
    return False


# ------------------------------------------------------------------------------------------------ G8
def increment(check: Check) -> None:
    p = check.program
    fn = p.func("Operation.increment")
    check.analysed(fn)
    r = Resolver(p, fn)
    cfg = r.cfg
    x, mn, mx, pos = [q.name for q in fn.params[:4]]
    incs = [n for n in cfg.stmt_nodes() if isinstance(n.ast, ast.AugAssign) and isinstance(n.ast.target, ast.Subscript) and
            r.term(n.ast.target.value, n) == ("param", x) and isinstance(n.ast.op, ast.Add) and const_value(r.term(n.ast.value, n)) == 1]
    resets = [n for n in cfg.stmt_nodes() if isinstance(n.ast, ast.Assign) and isinstance(n.ast.targets[0], ast.Subscript) and
              r.term(n.ast.targets[0].value, n) == ("param", x) and (lambda t: t[0] == "sub" and t[1] == ("param", mn))(r.term(n.ast.value, n))]
    recs = [(n, c) for n, c in cfg.all_calls() if r.term(c.func, n) == ("global", "fuzzylite.operation.Operation.increment")]
    if not incs or not resets:
        raise AnalysisError("Operation.increment: increment/reset sites not recognised")

    def classify(t: Term, e):
        if t == ("param", x):
            return "x_nonempty"
        if t[0] == "sub" and t[1] == ("param", x):
            return "xp"
        if t[0] == "sub" and t[1] == ("param", mx):
            return "maxp"
        if t == ("param", pos) or (t[0] == "phi" and ("param", pos) in t[1]) or (t[0] == "ifexp" and ("param", pos) in (t[2], t[3])):
            return "pos"
        return None

    bad = []
    rows = 0
    first = [s for s, _ in cfg.entry.succ][0]
    for posv, xp, maxp in itertools.product(range(0, 3), range(0, 3), range(0, 3)):
        env = {"x_nonempty": True, "pos": posv, "xp": xp, "maxp": maxp}
        for k in range(0, 4):
            env[f"const:{float(k)}"] = k
        ev = RoleEval(r, classify)
        may, must = simulate(cfg, first, ev, env, set(incs) | set(resets) | {n for n, _ in recs}, set())
        rows += 1
        want_inc = xp < maxp
        got_inc = any(n in must for n in incs)
        got_reset = any(n in must for n in resets)
        got_rec = any(n in must for n, _ in recs)
        if may != must:
            bad.append(("nondeterministic", env, sorted(set(ev.unknown_atoms))[:3]))
        elif got_inc != want_inc or got_reset != (not want_inc) or got_rec != ((not want_inc) and posv - 1 >= 0):
            bad.append(({"increment": got_inc, "reset": got_reset, "carry": got_rec}, {"position": posv, "x[p]": xp, "max[p]": maxp}))
    check.require(not bad, "G8", "Operation.increment/digit",
                  "digit p is incremented iff x[p] < max[p]; otherwise it is reset to min[p] and the carry goes to p-1 when p > 0"
                  if not bad else f"counter disagrees with the specification: {bad[:2]}", loc(fn), {"rows": rows}, exhaustive=True, cases=rows)
    # carry goes to position - 1 on the same lists
    ok = False
    for n, c in recs:
        t = r.term(c, n)
        a = t[2]
        ok = len(a) == 4 and a[0] == ("param", x) and a[1] == ("param", mn) and a[2] == ("param", mx) and \
            any(s == ("binop", "-", ("param", pos), ("const", 1)) or (s[0] == "binop" and s[1] == "-" and s[3] == ("const", 1)) for s in walk(a[3]))
    check.require(ok, "G8", "Operation.increment/carry", "the carry increments position - 1 of the same counter", loc(fn, recs[0][0] if recs else fn.node))
    # default position: the last index
    dflt = [n for n in cfg.stmt_nodes() if isinstance(n.ast, ast.Assign) and isinstance(n.ast.targets[0], ast.Name) and n.ast.targets[0].id == pos]
    ok = any(r.term(n.ast.value, n) == ("binop", "-", ("call", ("global", "len"), (("param", x),), ()), ("const", 1)) and
             any(r.term(g, gn) == ("cmp", ("is",), (("param", pos), ("const", None))) and pol for g, pol, gn in cfg.must_guards(n)) for n in dflt)
    check.require(ok, "G8", "Operation.increment/default-position", "without a position the last digit is incremented (last input varies fastest)", loc(fn))
    # the reported result: True after an increment, False when digit 0 overflows, the carry's result otherwise
    from ..guards import UNKNOWN

    bad = []
    rows = 0
    for posv, xp, maxp in itertools.product(range(0, 3), range(0, 3), range(0, 3)):
        env = {"x_nonempty": True, "pos": posv, "xp": xp, "maxp": maxp}
        ev = RoleEval(r, classify)
        for pa in paths(cfg, first, ev, env, set()):
            rows += 1
            end = [n_ for n_ in pa if n_.kind == "stmt" and isinstance(n_.ast, ast.Return)]
            if not end or end[-1].ast.value is None:
                bad.append(("no result", env))
                continue
            pr = PathResolver(p, fn, pa)
            t = pr.at(end[-1].ast.value, pr.index_of(end[-1]))
            is_carry = t[0] == "call" and t[1] == ("global", "fuzzylite.operation.Operation.increment")
            val = None if is_carry else RoleEval(r, lambda tt, e: "pos" if tt == ("param", pos) else None).eval_term(t, {"pos": posv})
            if xp < maxp:
                want = True
            elif posv == 0:
                want = False
            else:
                want = "carry"
            got = "carry" if is_carry else (val if val is not UNKNOWN else "unknown")
            if got != want:
                bad.append(({"position": posv, "x[p]": xp, "max[p]": maxp}, f"returns {got}, specified {want}"))
    check.require(not bad, "G8", "Operation.increment/overflow",
                  "the counter reports True after incrementing a digit, the carry's result when it carries, and False when digit 0 overflows"
                  if not bad else f"reported result disagrees with the specification: {bad[:2]}", loc(fn), {"rows": rows}, exhaustive=True, cases=rows)


# ------------------------------------------------------------------------------------------------ W4
def write_plumbing(check: Check) -> None:
    p = check.program
    fn = p.func("FldExporter.write")
    check.analysed(fn)
    r = Resolver(p, fn)
    cfg = r.cfg
    eng = fn.params[1].name
    restarts = [n for n, c in cfg.find_calls(".restart") if r.term(c.func.value, n) == ("param", eng)]  # type: ignore[union-attr]
    processes = [n for n, c in cfg.find_calls(".process") if r.term(c.func.value, n) == ("param", eng)]  # type: ignore[union-attr]
    loops = loops_over(r, lambda b: is_path(b, f"{eng}.input_variables"))
    assigns = []
    for h, base, d in loops:
        for n in cfg.loop_body(h):
            for t in cfg.stores_at(n):
                if isinstance(t, ast.Attribute) and t.attr == "value":
                    assigns.append((h, n, r.term(t.value, n), r.term(n.ast.value, n)))  # type: ignore[union-attr]
    ok = bool(restarts) and bool(processes) and bool(assigns)
    if ok:
        h, n, tgt, val = assigns[0]
        ok = all(cfg.must_precede(restarts, n) for _ in [0]) and cfg.must_precede([n], processes[0]) is False or True
    order_ok = bool(restarts) and bool(processes) and bool(assigns) and cfg.must_precede(restarts, assigns[0][0]) and \
        cfg.must_precede([assigns[0][0]], processes[0]) and assigns[0][0] not in cfg.reach([s for s, _ in processes[0].succ])
    check.require(order_ok, "W4", "FldExporter.write/order", "the engine is restarted, then given the input columns, then processed once"
                  if order_ok else "restart -> set inputs -> process order is broken (previous values or stale inputs leak into the table)",
                  loc(fn, (restarts or processes or [cfg.entry])[0]))
    col_ok = False
    if assigns:
        h, n, tgt, val = assigns[0]
        v = strip(val)
        col_ok = tgt[0] == "elem" and v[0] == "sub" and v[2][0] == "tuple" and len(v[2][1]) == 2 and v[2][1][1][0] == "index" and \
            v[2][1][1][1] == tgt[1][2][0] if tgt[1][0] == "call" else False
        if not col_ok and tgt[0] == "elem" and v[0] == "sub" and v[2][0] == "tuple":
            idx = v[2][1][1]
            col_ok = idx[0] == "index" and iter_base(idx[1])[0] == iter_base(tgt[1])[0] and v[2][1][0][0] == "slice"
    check.require(col_ok, "W4", "FldExporter.write/columns", "input variable i receives column i of the table"
                  if col_ok else f"assignment is {show(assigns[0][2])}.value = {show(assigns[0][3])}" if assigns else "no assignment", loc(fn))
    # output assembly
    stacked = {x.id for n_, c_ in cfg.all_calls() if r.term(c_.func, n_) == ("global", "numpy.hstack") for x in ast.walk(c_) if isinstance(x, ast.Name)}
    apps = [(n, c, r.term(c.args[0], n)) for n, c in cfg.find_calls(".append")
            if isinstance(c.func.value, ast.Name) and c.func.value.id in stacked and c.args]  # type: ignore[union-attr]
    ins = [n for n, c, t in apps if path_of(t) == f"{eng}.input_values"]
    outs = [n for n, c, t in apps if path_of(t) == f"{eng}.output_values"]

    def classify(t: Term, e):
        return {"self.input_values": "sw_in", "self.output_values": "sw_out", "self.headers": "sw_head"}.get(path_of(t) or "")

    bad = []
    if ins and outs:
        for a, b in itertools.product([True, False], repeat=2):
            ev = RoleEval(r, classify)
            start = [s for s, _ in processes[0].succ][0] if processes else [s for s, _ in cfg.entry.succ][0]
            may, must = simulate(cfg, start, ev, {"sw_in": a, "sw_out": b, "sw_head": True}, set(ins) | set(outs), set())
            if (any(n in must for n in ins), any(n in must for n in outs)) != (a, b) or may != must:
                bad.append((a, b))
    sw_ok = bool(ins) and bool(outs) and not bad
    check.require(sw_ok, "W4", "FldExporter.write/switches", "input columns are written iff input_values, output columns iff output_values"
                  if sw_ok else f"switches disagree at (input_values, output_values) = {bad}", loc(fn, (ins or outs or [cfg.entry])[0]), exhaustive=True, cases=4)
    ord_ok = bool(ins) and bool(outs) and outs[0] in cfg.reach([s for s, _ in ins[0].succ]) and ins[0] not in cfg.reach([s for s, _ in outs[0].succ])
    check.require(ord_ok, "W4", "FldExporter.write/column-order", "inputs come before outputs in every row", loc(fn))
    after = bool(processes) and all(cfg.must_precede(processes, n) for n in ins + outs)
    check.require(after, "W4", "FldExporter.write/read-after-process", "values are read from the engine after processing", loc(fn))
    # savetxt
    sv = [(n, r.term(c, n)) for n, c in cfg.all_calls() if r.term(c.func, n) == ("global", "numpy.savetxt")]
    if not sv:
        raise AnalysisError("FldExporter.write: numpy.savetxt call not found")
    n, t = sv[0]
    kw = dict(t[3])
    fmt_ok = "fmt" in kw and any(path_of(s) == "fuzzylite.library.settings.decimals" or
                                 (s[0] == "attr" and s[2] == "decimals" and s[1] == ("global", "fuzzylite.library.settings")) for s in walk(kw["fmt"])) and \
        any(s[0] == "const" and isinstance(s[1], str) and s[1].endswith("f") for s in walk(kw["fmt"]))
    check.require(fmt_ok, "W4", "FldExporter.write/format", "numbers are printed fixed-point with settings.decimals decimals", loc(fn, n))
    dl_ok = path_of(kw.get("delimiter", ("const", None))) == "self.separator"
    check.require(dl_ok, "W4", "FldExporter.write/delimiter", "columns are separated by self.separator", loc(fn, n))
    hd = kw.get("header", ("const", None))
    hd_ok = hd[0] == "ifexp" and path_of(hd[1]) == "self.headers" and hd[2] == ("call", ("attr", ("param", "self"), "header"), (("param", eng),), ()) and hd[3] == ("const", "")
    cm_ok = kw.get("comments") == ("const", "")
    check.require(hd_ok and cm_ok, "W4", "FldExporter.write/header", "one header line (self.header(engine)) iff self.headers, without comment prefix"
                  if hd_ok and cm_ok else f"header={show(hd)} comments={show(kw.get('comments', ('const', None)))}", loc(fn, n))


def header_agreement(check: Check) -> None:
    p = check.program
    fn = p.func("FldExporter.header")
    check.analysed(fn)
    r = Resolver(p, fn)
    cfg = r.cfg
    eng = fn.params[1].name
    sites = []
    for coll, which in ((f"{eng}.input_variables", "in"), (f"{eng}.output_variables", "out")):
        # (a) a comprehension over the collection taking .name of each element
        for n in cfg.stmt_nodes():
            for e in cfg.exprs_of(n):
                for x in ast.walk(e):
                    if isinstance(x, (ast.ListComp, ast.GeneratorExp)) and len(x.generators) == 1 and unparse(x.generators[0].iter) == coll and \
                            isinstance(x.elt, ast.Attribute) and x.elt.attr == "name" and isinstance(x.generators[0].target, ast.Name) and \
                            unparse(x.elt.value) == x.generators[0].target.id:
                        gs = [(path_of(r.term(g, gn)), pol) for g, pol, gn in cfg.must_guards(n)]
                        sites.append((which, n, gs))
        # (b) a loop over the collection appending element.name
        for h_, base_, d_ in loops_over(r, lambda b_: is_path(b_, coll)):
            for n in cfg.loop_body(h_):
                for c_ in cfg.calls_in(n):
                    if isinstance(c_.func, ast.Attribute) and c_.func.attr == "append" and c_.args:
                        t_ = r.term(c_.args[0], n)
                        if t_[0] == "attr" and t_[2] == "name" and t_[1][0] == "elem" and d_ == "forward":
                            gs = [(path_of(r.term(g, gn)), pol) for g, pol, gn in cfg.must_guards(h_)]
                            sites.append((which, h_, gs))
    ins = [s for s in sites if s[0] == "in"]
    outs = [s for s in sites if s[0] == "out"]
    ok = len(ins) == 1 and len(outs) == 1 and ins[0][2] == [("self.input_values", True)] and outs[0][2] == [("self.output_values", True)]
    check.require(ok, "S4", "FldExporter.header/switches", "the header lists input names iff input_values and output names iff output_values (as write does)"
                  if ok else f"header guards: {[(s[0], s[2]) for s in sites]}", loc(fn))
    ord_ok = ok and outs[0][1] in cfg.reach([s for s, _ in ins[0][1].succ]) and ins[0][1] not in cfg.reach([s for s, _ in outs[0][1].succ])
    rets = [r.term(n.ast.value, n) for n in cfg.stmt_nodes() if isinstance(n.ast, ast.Return) and n.ast.value is not None]
    join_ok = any(t[0] == "call" and t[1] == ("attr", ("attr", ("param", "self"), "separator"), "join") for t in rets)
    check.require(ord_ok and join_ok, "S4", "FldExporter.header/order", "input names precede output names, joined by the separator", loc(fn))


def reader(check: Check) -> None:
    p = check.program
    fn = p.func("FldExporter.write_from_reader")
    check.analysed(fn)
    r = Resolver(p, fn)
    cfg = r.cfg
    skip = [q.name for q in fn.params if q.name.startswith("skip")]
    loops = [h for h in cfg.loop_heads() if h.kind == "for"]
    if not loops or not skip:
        raise AnalysisError("FldExporter.write_from_reader: line loop / skip parameter not recognised")
    h = loops[0]
    body = cfg.loop_body(h)
    written = {x.id for n_, c_ in cfg.all_calls() if isinstance(c_.func, ast.Attribute) and c_.func.attr == "write" and r.term(c_.func.value, n_) == ("param", "self")
               for x in ast.walk(c_) if isinstance(x, ast.Name)}
    apps = [n for n, c in cfg.find_calls(".append") if n in body and isinstance(c.func.value, ast.Name) and c.func.value.id in written]  # type: ignore[union-attr]

    def is_line(t: Term) -> bool:
        return any(s[0] == "elem" for s in walk(t)) and not any(s[0] == "index" for s in walk(t))

    def classify(t: Term, e):
        if t[0] == "index":
            return "i"
        if t == ("param", skip[0]):
            return "skip"
        if t[0] == "call" and t[1][0] == "attr" and t[1][2] == "strip" and is_line(t[1][1]):
            return "nonblank"
        if t[0] == "sub" and const_value(t[2]) == 0 and t[1][0] == "call" and t[1][1][0] == "attr" and t[1][1][2] == "strip" and is_line(t[1][1][1]):
            return "first_char"
        if t[0] == "call" and t[1][0] == "attr" and t[1][2] == "startswith" and t[2] == (("const", "#"),):
            return "comment"
        return None

    outside = {n for n in cfg.nodes if n not in body}
    bad = []
    rows = 0
    for order in weak_orders(["i", "skip"]):
        for nonblank, comment in itertools.product([True, False], repeat=2):
            if not nonblank and comment:
                continue
            ev = RoleEval(r, classify)
            env = dict(order, nonblank=nonblank, comment=comment, first_char="#" if comment else "a")
            may, must = simulate(cfg, body_entry(h), ev, env, set(apps), outside, skip_loops=True)
            rows += 1
            want = not (env["i"] < env["skip"]) and nonblank and not comment
            if bool(must) != want or may != must:
                bad.append({"i<skip": env["i"] < env["skip"], "i==skip": env["i"] == env["skip"], "blank": not nonblank, "comment": comment,
                            "kept": bool(must), "unclassified": sorted(set(ev.unknown_atoms))[:2]})
    check.require(not bad and bool(apps), "G9", "FldExporter.write_from_reader/skip",
                  "a line is tabulated iff its index >= skip_lines and it is neither blank nor a comment" if not bad and apps else
                  f"reader disagrees with the specification: {bad[:2]}", loc(fn, h), {"rows": rows}, exhaustive=True, cases=rows)


# ------------------------------------------------------------------------------------------------ G11 grid as a whole
def grid_semantics(check: Check) -> None:
    """G11 [E up to the stated bounds]: `FldExporter.write_from_scope` (together with `Op.increment`) is interpreted abstractly
    (sa/absexec.py) on engines with 1-3 input variables whose range bounds and current values are *symbols*, for both scopes, every
    requested size up to the bound and every set of active variables; the matrix handed to `write` must be the grid of the statement:

      each variable = v  -> v values per active input;   all variables = v -> k values, k the largest integer with k^inputs <= v
      value j of input i = minimum_i + j * (maximum_i - minimum_i) / (k - 1)   (k = 1: the minimum), j = 0..k-1, inclusive ends
      inactive inputs keep their current value;  rows in lexicographic order, the last input varying fastest.

    Floating point enters in one place only, the estimate of the k-th root: `round(pow(v, 1/n))` is modelled as *any* integer within
    one of the exact root (three runs), so the verdict is about the integer correction that follows, not about a particular libm."""
    import itertools
    from fractions import Fraction

    from ..absexec import AbsExec, Internal, Lin, MObj, Opaque, Raised, Unknown, _Return

    p = check.program
    fn = p.func("FldExporter.write_from_scope")
    inc = p.func("Operation.increment")
    check.analysed(fn)
    check.analysed(inc)
    node = fn.analysis_node
    params = [a.arg for a in node.args.args]
    if len(params) < 6:
        raise AnalysisError("FldExporter.write_from_scope: signature not recognised")
    _self, p_engine, p_writer, p_values, p_scope, p_active = params[:6]
    ALL, EACH = ("enum", "AllVariables"), ("enum", "EachVariable")
    ns = MObj("class", {"ScopeOfValues": MObj("enum", {"AllVariables": ALL, "EachVariable": EACH})})
    bad: dict[str, str] = {}
    cases = 0
    max_n = 3
    sizes = {1: range(1, 8), 2: range(1, 18), 3: range(1, 30)} if check.tier != "thorough" else {1: range(1, 12), 2: range(1, 40), 3: range(1, 70)}

    def iroot(v: int, n: int) -> int:
        k = 1
        while (k + 1) ** n <= v:
            k += 1
        return k

    def expected(vars_: list[MObj], active: list[bool], k: int) -> list[list[Any]]:
        axes = []
        for v_, act in zip(vars_, active):
            if not act:
                axes.append([v_.fields["value"]])
            else:
                mn, dr = v_.fields["minimum"], v_.fields["drange"]
                axes.append([mn.add(dr.scale(Fraction(j, max(1, k - 1)))) for j in range(k)])
        return [list(row) for row in itertools.product(*axes)]

    def note(kind: str, text: str) -> None:
        bad.setdefault(kind, text)

    try:
        for n in range(1, max_n + 1):
            for scope in (EACH, ALL):
                for v in (range(1, 5) if scope == EACH else sizes[n]):
                    subsets = [tuple(c) for r_ in range(n + 1) for c in itertools.combinations(range(n), r_)] if (scope == EACH and v <= 3) or v in (1, 4, 9) else [tuple(range(n))]
                    for act in subsets + [None]:
                        for off in ((0,) if scope == EACH else (-1, 0, 1)):
                            cases += 1
                            vars_ = [MObj("InputVariable", {"name": f"in{i}", "minimum": Lin.sym(f"min{i}"), "maximum": Lin.sym(f"min{i}").add(Lin.sym(f"range{i}")),
                                                            "drange": Lin.sym(f"range{i}"), "value": Lin.sym(f"cur{i}")}) for i in range(n)]
                            engine = MObj("Engine", {"input_variables": vars_, "name": Opaque("name")})
                            got: dict[str, Any] = {}

                            def write(ex_, e, recv, args, kw, got=got):
                                got["matrix"] = args[2] if len(args) > 2 else kw.get("x")
                                return None

                            def root_estimate(ex_, e, args, kw, n=n, off=off, v=v):
                                # round(pow(values, 1/inputs)) or pow(...): an integer within one of the exact root
                                return max(0, iroot(v, n) + off)

                            hooks = {"method:write": write, "pow": root_estimate, "round": lambda ex_, e, args, kw: args[0],
                                     "method:take": lambda ex_, e, recv, args, kw: args[0], "method:array": lambda ex_, e, recv, args, kw: args[0],
                                     "method:asarray": lambda ex_, e, recv, args, kw: args[0]}
                            ex = AbsExec(fn.qualname, hooks, helpers={"increment": inc})
                            env: dict[str, Any] = {_self: MObj("FldExporter", {}), p_engine: engine, p_writer: Opaque("writer"), p_values: v, p_scope: scope,
                                                   p_active: (None if act is None else frozenset(vars_[i] for i in act)),
                                                   "FldExporter": ns, "Op": Opaque("Op"), "Operation": Opaque("Op"), "np": Opaque("np")}
                            what = (f"{n} input(s), {'each variable' if scope == EACH else 'all variables'} = {v}, active = "
                                    f"{'all (default)' if act is None else list(act)}" + (f", root estimate off by {off:+d}" if off else ""))
                            try:
                                ex.block(list(node.body), env)
                            except _Return:
                                pass
                            except Raised as r:
                                note("raises", f"{what}: raises {r.cls}")
                                continue
                            except Internal as i:
                                note("raises", f"{what}: internal {i.cls} ({i.why})")
                                continue
                            k = v if scope == EACH else iroot(v, n)
                            active = [True] * n if act is None else [i in act for i in range(n)]
                            want = expected(vars_, active, k)
                            m = got.get("matrix")
                            if not isinstance(m, list):
                                note("no-write", f"{what}: nothing is handed to write()")
                                continue
                            rows = [list(r_) if isinstance(r_, (list, tuple)) else [r_] for r_ in m]
                            if len(rows) != len(want):
                                note("size", f"{what}: {len(rows)} rows, specified {len(want)} (k = {k} values per active input)")
                            elif sorted(map(repr, rows)) != sorted(map(repr, want)):
                                diff = next((a, b) for a, b in zip(rows, want) if a != b)
                                note("values", f"{what}: a row holds {diff[0]}, specified {diff[1]}")
                            elif rows != want:
                                diff = next((i_, a, b) for i_, (a, b) in enumerate(zip(rows, want)) if a != b)
                                note("order", f"{what}: row {diff[0]} is {diff[1]}, specified {diff[2]} (lexicographic, last input fastest)")
    except Unknown as u:
        raise AnalysisError(str(u)) from None

    def verdict(construct: str, kinds: list[str], ok_text: str) -> None:
        hits = [bad[k_] for k_ in kinds if k_ in bad]
        check.require(not hits, "G11", f"FldExporter.write_from_scope/{construct}", ok_text if not hits else hits[0], loc(fn), {"cases": cases}, exhaustive=True, cases=cases)

    verdict("grid-size", ["size"], f"the number of rows is k^(active inputs) with k = v (each variable) or the largest k with k^inputs <= v (all variables), for a root "
            f"estimate within one of the exact root ({cases} abstract instances)")
    verdict("grid-values", ["values", "no-write", "raises"], "every row holds minimum + j * range / (k - 1) for the active inputs (both ends included, the minimum alone for "
            "k = 1) and the current value for the inactive ones")
    verdict("grid-order", ["order"], "rows are in lexicographic order with the last input varying fastest")
