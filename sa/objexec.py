"""Abstract interpretation of the package's own classes on model objects (`ObjExec`).

`sa/absexec.py` interprets one function over an abstract store that a rule prepares by hand. The serialisation properties (C14, C15) are about
*many* small methods of *many* classes working together: an exporter method prints what forty `parameters()` methods hand it, an importer method
hands what it reads to forty `configure()` methods and a dozen property setters. `ObjExec` extends the interpreter with the package's object model,
read from the program model (sa/pm.py), so that such a composition can be interpreted as a whole:

    class values          a name that denotes a class of the package (or a module-level alias: `Op = Operation`) evaluates to `ClassV`
    instances             `C(args)` allocates a model object (`MObj`, class = qualified name) and interprets `C.__init__` found through the MRO
    methods / properties  are found through the statically resolved MRO of the receiver's class and interpreted; `super().m(...)` continues the
                          lookup behind the class whose method is being interpreted; static and class methods; nested classes
    enumerations          members are model objects with `name` and `value`, `E["name"]`, `E(value)`, iteration and identity comparison
    module functions      module-level functions of the package are interpreted when called
    numbers               floating-point fields hold *symbols* (`Sym`): nothing can be computed from them, they can be stored, compared for identity,
                          and printed - a symbol formatted with the library's number format prints as a placeholder token that `float()` /
                          the library's `to_float` read back as the same symbol; formatted any other way it reads back as a different value
    strings               concrete Python strings (the text under construction, keys, names); string methods have their Python meaning

Nothing of /repo is imported or run: the interpreter walks syntax trees. A construct outside the model raises `Unknown` (the caller reports an
analysis error or counts the case as undecided); it is never guessed.
"""

from __future__ import annotations

import ast
from dataclasses import dataclass
from typing import Any, Callable

from .absexec import BUILTIN_EXC, AbsExec, App, Closure, ExcValue, Internal, ListIter, MObj, Opaque, Raised, Sym, Unknown, _Return
from .pm import AnalysisError, ClassInfo, FunctionInfo, Program, unparse

OPEN, CLOSE = "⟦", "⟧"  # placeholder brackets: never part of a name, a key or a number


@dataclass(frozen=True)
class ClassV:
    qual: str


class FuncV:
    """A function of the package (module-level, static, or a method not yet bound)."""

    def __init__(self, fi: FunctionInfo, bound: Any = None, cls: str | None = None):
        self.fi = fi
        self.bound = bound
        self.cls = cls

    def __repr__(self) -> str:
        return f"<function {self.fi.qualname}>"


class Decimals(int):
    """`settings.decimals`: a number whose use inside a format specification marks the library's own number format."""


@dataclass(frozen=True)
class TypeV:
    """A type that is not a class of the package (str, float, Sequence, np.floating ...) in an isinstance test."""
    name: str


class Arr:
    """A one- or two-dimensional array of model numbers (row-major nested lists): just enough of numpy's interface for the code that stores
    coordinate tables (transpose, flatten, tolist, column / row subscripts, shape)."""

    def __init__(self, data: list, ndim: int):
        self.data = data
        self.ndim = ndim

    @property
    def shape(self) -> tuple:
        if self.ndim == 0:
            return ()
        if self.ndim == 1:
            return (len(self.data),)
        return (len(self.data), len(self.data[0]) if self.data else 0)

    def flat(self) -> list:
        if self.ndim == 0:
            return [self.data]
        return list(self.data) if self.ndim == 1 else [x for row in self.data for x in row]

    def transpose(self) -> "Arr":
        if self.ndim == 1:
            return self
        r, c = self.shape
        if r and not c:
            return Arr([], 2) if True else self
        return Arr([[self.data[i][j] for i in range(r)] for j in range(c)], 2)

    def __eq__(self, o: object) -> bool:
        return isinstance(o, Arr) and self.ndim == o.ndim and self.shape == o.shape and all(
            (x == y) or (isinstance(x, float) and isinstance(y, float) and x != x and y != y) for x, y in zip(self.flat(), o.flat()))

    def __hash__(self) -> int:
        return hash((self.ndim, self.shape))

    def __repr__(self) -> str:
        return f"Arr({self.data!r})"


PY_TYPES = {"str": (str,), "bool": (bool,), "int": (int,), "float": (float,), "list": (list,), "tuple": (tuple,), "set": (set, frozenset), "dict": (dict,),
            "Sequence": (list, tuple, str), "Iterable": (list, tuple, str, set, frozenset, dict), "object": (object,)}


def placeholder(sym: Sym, how: str = "") -> str:
    return f"{OPEN}{sym.name}{('|' + how) if how else ''}{CLOSE}"


def read_placeholder(text: str) -> Any | None:
    """The value a placeholder token stands for when it is read as a number: the symbol itself if it was printed in the library's number format,
    otherwise a *different* symbol derived from it (`x~fmt(.3f)`: x printed some other way and read back - a different number in general)."""
    t = text.strip()
    if t.startswith(OPEN) and t.endswith(CLOSE) and t.count(OPEN) == 1:
        body = t[1:-1]
        if "|" in body:
            name, how = body.rsplit("|", 1)
            return Sym(f"{name}~{how}")
        return Sym(body)
    return None


class ObjExec(AbsExec):
    def __init__(self, program: Program, qual: str = "<model>", hooks: dict[str, Callable[..., Any]] | None = None):
        super().__init__(qual, hooks)
        self.p = program
        self.concrete_strings = True
        self.alias: dict[str, str] = {}
        for m in program.modules.values():
            for nm, v in m.assigns.items():
                if isinstance(v, ast.Name) and v.id in m.classes:
                    self.alias[nm] = m.classes[v.id].qualname
        self.simple: dict[str, str] = {}
        for q, c in program.classes.items():
            if c.outer is None:
                self.simple.setdefault(c.name, q)
        self.enum_members: dict[tuple[str, str], MObj] = {}
        self.decimals = Decimals(3)
        self.max_steps = 20_000_000
        self.max_loop = 100_000  # iterations of one while loop (texts of a few hundred lines are read line by line)
        self.func_hooks: dict[str, Callable[..., Any]] = {}  # qualified function name -> model (instead of interpreting it)
        self.depth = 0

    # ------------------------------------------------------------------ classes
    def class_of(self, v: Any) -> ClassInfo | None:
        if isinstance(v, MObj):
            return self.p.classes.get(v.cls)
        return None

    def instantiate(self, c: ClassInfo, args: list[Any], kw: dict[str, Any], e: ast.AST) -> Any:
        if c.is_enum:
            if len(args) != 1:
                raise self.unknown(e, "enumeration call")
            for m in self.members(c):
                if self.same(m.fields["value"], args[0]):
                    return m
            raise Raised("ValueError", e)
        hook = self.func_hooks.get(f"new:{c.qualname}")
        if hook is not None:
            return hook(self, e, args, kw)
        obj = MObj(c.qualname, {"__bases__": tuple(x.qualname for x in c.mro[1:]) + tuple(x.name for x in c.mro[1:])})
        init = c.lookup("__init__")
        if init is not None:
            self.invoke(init, [obj] + list(args), kw, e)
        elif args or kw:
            raise Internal("TypeError", f"`{unparse(e)[:60]}`: {c.name}() takes no arguments", e)
        return obj

    def members(self, c: ClassInfo) -> list[MObj]:
        out = []
        for name, node in c.class_attrs.items():
            if name.startswith("_"):
                continue
            key = (c.qualname, name)
            if key not in self.enum_members:
                if isinstance(node, ast.Call) and isinstance(node.func, (ast.Attribute, ast.Name)) and (getattr(node.func, "attr", None) == "auto" or getattr(node.func, "id", None) == "auto"):
                    val: Any = len(out) + 1  # enum.auto(): 1, 2, 3, ... in the order of definition
                else:
                    try:
                        val = self.ev(node, {})
                    except Unknown:
                        val = Opaque(f"{c.qualname}.{name}")
                if isinstance(val, tuple) and len(val) == 2 and val[0] == "builtin":  # enum.auto()
                    val = len(out) + 1
                self.enum_members[key] = MObj(c.qualname, {"name": name, "value": val, "__enum__": True, "__bases__": ("Enum",)})
            out.append(self.enum_members[key])
        return out

    def same(self, a: Any, b: Any) -> bool:
        if a is b:
            return True
        if isinstance(a, MObj) or isinstance(b, MObj):
            return False
        try:
            return bool(a == b)
        except Exception:  # noqa: BLE001
            return False

    def invoke(self, fi: FunctionInfo, args: list[Any], kw: dict[str, Any], e: ast.AST) -> Any:
        hook = self.func_hooks.get(fi.qualname)
        if hook is not None:
            return hook(self, e, args, kw)
        self.__dict__.setdefault("entered", set()).add(fi.qualname)  # which functions the interpretation went through (and on which classes of object)
        if args and isinstance(args[0], MObj) and fi.cls is not None:
            self.entered.add(f"{fi.name}:{args[0].cls}")
        self.depth += 1
        if self.depth > 60:
            self.depth -= 1
            raise Internal("RecursionError", f"`{unparse(e)[:60]}`", e)
        try:
            env: dict[str, Any] = {"<class>": fi.cls.qualname if fi.cls is not None else None, "<module>": fi.module.name}
            return self.call_closure(Closure(fi.node, env), args, kw, e)
        finally:
            self.depth -= 1

    def call_closure(self, c: Closure, args: list[Any], kw: dict[str, Any], e: ast.AST) -> Any:
        node = c.node
        if isinstance(node, ast.Lambda):
            return super().call_closure(c, args, kw, e)
        a = node.args
        names = [x.arg for x in a.posonlyargs + a.args]
        if len(args) > len(names) and a.vararg is None:
            raise Internal("TypeError", f"`{unparse(e)[:60]}`: too many positional arguments", e)
        env = dict(c.env)
        defaults = [None] * (len(names) - len(a.defaults)) + list(a.defaults)
        # default values are evaluated once, when the function is defined: every call sees the same objects (a mutable default is shared)
        cache = self.__dict__.setdefault("_default_values", {})
        for n, d in list(zip(names, defaults)) + [(x.arg, d_) for x, d_ in zip(a.kwonlyargs, a.kw_defaults)]:
            if d is not None:
                key = (id(node), n)
                if key not in cache:
                    cache[key] = (node, self.ev(d, c.env))
                env[n] = cache[key][1]
        for n, v in zip(names, args):
            env[n] = v
        if a.vararg is not None:
            env[a.vararg.arg] = tuple(args[len(names):])
        known = set(names) | {x.arg for x in a.kwonlyargs}
        posonly = {x.arg for x in a.posonlyargs}
        extra = {}
        for k, v in kw.items():
            if k in known and k not in posonly:
                env[k] = v
            elif a.kwarg is not None:
                extra[k] = v
            else:
                raise Internal("TypeError", f"`{unparse(e)[:60]}`: unexpected keyword argument {k}", e)
        if a.kwarg is not None:
            env[a.kwarg.arg] = extra
        missing = [n for n in names + [x.arg for x in a.kwonlyargs] if n not in env]
        if missing:
            raise Internal("TypeError", f"`{unparse(e)[:60]}`: missing argument {missing[0]}", e)
        if names:
            env["<self>"] = env[names[0]]
        from .absexec import _is_generator
        if _is_generator(node):
            self._generators.append([])
            try:
                try:
                    self.block(node.body, env)
                except _Return:
                    pass
                return list(self._generators[-1])
            finally:
                self._generators.pop()
        try:
            self.block(node.body, env)
        except _Return as r:
            return r.value
        return None

    # ------------------------------------------------------------------ expressions
    def ev(self, e: ast.AST, env: dict[str, Any]) -> Any:
        if self.steps > self.max_steps:
            raise AnalysisError(f"{self.qual}: abstract interpretation does not terminate")
        if isinstance(e, ast.Name):
            self.steps += 1
            return self.name(e, env)
        if isinstance(e, ast.JoinedStr):
            return self.fstring(e, env)[0]
        if isinstance(e, ast.Compare) and len(e.ops) == 1 and isinstance(e.ops[0], (ast.Eq, ast.NotEq)):
            a, b = self.ev(e.left, env), self.ev(e.comparators[0], env)
            if isinstance(a, (FuncV, Opaque)) or isinstance(b, (FuncV, Opaque)):
                if isinstance(a, FuncV) and isinstance(b, FuncV):
                    r = a.fi is b.fi
                elif isinstance(a, Opaque) and isinstance(b, Opaque) and a.what == b.what == "object.__init__":
                    r = True
                elif (isinstance(a, FuncV) and isinstance(b, Opaque) and b.what == "object.__init__") or (isinstance(b, FuncV) and isinstance(a, Opaque) and a.what == "object.__init__"):
                    r = False
                else:
                    raise self.unknown(e, f"comparison of {a!r} with {b!r}")
                return r if isinstance(e.ops[0], ast.Eq) else not r
            if isinstance(a, (MObj, ClassV, Sym, App, type(None))) or isinstance(b, (MObj, ClassV, Sym, App, type(None))) or (isinstance(a, float) and isinstance(b, float)):
                r = self.equal(a, b, e)
                return r if isinstance(e.ops[0], ast.Eq) else not r
            if isinstance(a, Opaque) or isinstance(b, Opaque):
                raise self.unknown(e, f"comparison of {a!r} with {b!r}")
            env2 = dict(env)
            env2["<l>"], env2["<r>"] = a, b
            return super().ev(ast.copy_location(ast.Compare(left=ast.Name(id="<l>", ctx=ast.Load()), ops=e.ops, comparators=[ast.Name(id="<r>", ctx=ast.Load())]), e), env2)
        if isinstance(e, ast.Subscript):
            base = self.ev(e.value, env)
            if isinstance(base, Arr):
                return self.arr_subscript(base, e, env)
            if isinstance(base, ClassV):
                c = self.p.classes[base.qual]
                if c.is_enum:
                    key = self.ev(e.slice, env)
                    for m in self.members(c):
                        if m.fields["name"] == key:
                            return m
                    raise Internal("KeyError", f"`{unparse(e)}`", e)
                return base  # a generic alias: Factory[T]
            if isinstance(base, MObj) and self.class_of(base) is not None:
                gi = self.class_of(base).lookup("__getitem__")  # type: ignore[union-attr]
                if gi is not None:
                    return self.invoke(gi, [base, self.ev(e.slice, env)], {}, e)
            env2 = dict(env)
            env2["<b>"] = base
            return super().ev(ast.copy_location(ast.Subscript(value=ast.Name(id="<b>", ctx=ast.Load()), slice=e.slice, ctx=ast.Load()), e), env2)
        if isinstance(e, ast.BinOp) and isinstance(e.op, ast.Mod):
            a = self.ev(e.left, env)
            if isinstance(a, str):
                raise self.unknown(e, "%-formatting")
            env2 = dict(env)
            env2["<l>"] = a
            return super().ev(ast.copy_location(ast.BinOp(left=ast.Name(id="<l>", ctx=ast.Load()), op=e.op, right=e.right), e), env2)
        if isinstance(e, ast.BinOp) and isinstance(e.op, (ast.Add, ast.Sub, ast.Mult)):
            a, b = self.ev(e.left, env), self.ev(e.right, env)
            if isinstance(a, bool) and isinstance(b, (int, float)):
                a = int(a)
            if isinstance(b, bool) and isinstance(a, (int, float)):
                b = int(b)
            env2 = dict(env)
            env2["<l>"], env2["<r>"] = a, b
            return super().ev(ast.copy_location(ast.BinOp(left=ast.Name(id="<l>", ctx=ast.Load()), op=e.op, right=ast.Name(id="<r>", ctx=ast.Load())), e), env2)
        if isinstance(e, ast.SetComp):
            return set(super().ev(e, env))  # a set the code may go on to modify (pop, add)
        if isinstance(e, ast.Dict) and any(k is None for k in e.keys):
            d: dict[Any, Any] = {}
            for k, v in zip(e.keys, e.values):
                if k is None:
                    m = self.ev(v, env)
                    if not isinstance(m, dict):
                        raise Internal("TypeError", f"`{unparse(e)[:60]}`: ** of a value that is not a mapping", e)
                    d.update(m)
                else:
                    d[self.ev(k, env)] = self.ev(v, env)
            return d
        if isinstance(e, ast.BinOp) and isinstance(e.op, ast.BitOr):
            a, b = self.ev(e.left, env), self.ev(e.right, env)
            if isinstance(a, dict) and isinstance(b, dict):
                return {**a, **b}
            env2 = dict(env)
            env2["<l>"], env2["<r>"] = a, b
            return super().ev(ast.copy_location(ast.BinOp(left=ast.Name(id="<l>", ctx=ast.Load()), op=e.op, right=ast.Name(id="<r>", ctx=ast.Load())), e), env2)
        if isinstance(e, ast.Starred):
            raise self.unknown(e)
        return super().ev(e, env)

    def arr_subscript(self, a: Arr, e: ast.Subscript, env: dict[str, Any]) -> Any:
        def index(x: ast.AST) -> Any:
            if isinstance(x, ast.Slice):
                return slice(self.ev(x.lower, env) if x.lower else None, self.ev(x.upper, env) if x.upper else None, self.ev(x.step, env) if x.step else None)
            return self.ev(x, env)
        idx = tuple(index(x) for x in e.slice.elts) if isinstance(e.slice, ast.Tuple) else (index(e.slice),)
        if not all(isinstance(i, (int, slice)) and not isinstance(i, bool) for i in idx) or len(idx) > a.ndim:
            raise self.unknown(e, "array subscript")
        try:
            if a.ndim == 1:
                r = a.data[idx[0]]
                return Arr(r, 1) if isinstance(idx[0], slice) else r
            rows = a.data[idx[0]]
            if len(idx) == 1:
                return Arr([list(x) for x in rows], 2) if isinstance(idx[0], slice) else Arr(list(rows), 1)
            if isinstance(idx[0], slice):
                cols = [x[idx[1]] for x in rows]
                return Arr([list(x) for x in cols], 2) if isinstance(idx[1], slice) else Arr(cols, 1)
            r = rows[idx[1]]
            return Arr(list(r), 1) if isinstance(idx[1], slice) else r
        except IndexError:
            raise Internal("IndexError", f"`{unparse(e)[:60]}`", e) from None

    def equal(self, a: Any, b: Any, e: ast.AST) -> bool:
        if a is b:
            return True
        if isinstance(a, float) and isinstance(b, float):
            return a == b
        for x, y in ((a, b), (b, a)):
            if isinstance(x, MObj):
                ci = self.class_of(x)
                eqm = ci.lookup("__eq__") if ci is not None else None
                if eqm is not None:
                    return self.truth(self.invoke(eqm, [x, y], {}, e), e)
                return False
        if isinstance(a, (Sym, App)) or isinstance(b, (Sym, App)):
            if isinstance(a, (Sym, App)) and isinstance(b, (Sym, App)):
                return a == b
            other = b if isinstance(a, (Sym, App)) else a
            if isinstance(other, (int, float)) and not isinstance(other, bool):
                return False  # a generic number differs from every constant
            return False
        return bool(a == b)

    def name(self, e: ast.Name, env: dict[str, Any]) -> Any:
        n = e.id
        if n in env:
            return env[n]
        if n in self.globals:
            return self.globals[n]
        if n in self.hooks:
            return self.hooks[n]
        here = env.get("<class>")
        k = self.p.classes.get(here) if isinstance(here, str) else None
        while k is not None:  # names of the enclosing class bodies: nested classes and class attributes
            for kk in k.mro:
                if n in kk.inner:
                    return ClassV(kk.inner[n].qualname)
            k = k.outer
        if n in self.alias:
            return ClassV(self.alias[n])
        if n in self.simple:
            return ClassV(self.simple[n])
        mod = env.get("<module>")
        cands = [f for q, f in self.p.functions.items() if q == n and f.cls is None]
        if cands:
            return FuncV(cands[0])
        if n in BUILTIN_EXC or n in ("AttributeError", "NotImplementedError", "Exception", "ZeroDivisionError", "OverflowError", "RecursionError"):
            return ("exc-class", n)
        if n in ("str", "bool", "float", "int", "repr", "print", "callable", "id", "super", "map", "filter", "next", "issubclass", "object", "hash", "format"):
            return ("builtin", n)
        if n in PY_TYPES:
            return ("builtin", n) if n in ("list", "tuple", "set", "dict") else TypeV(n)
        del mod
        return super().ev(e, env)

    def fstring(self, e: ast.JoinedStr, env: dict[str, Any]) -> tuple[Any, bool]:
        """-> (string, whether the library's decimals setting took part in a format specification)."""
        out: list[str] = []
        used_decimals = False
        for v in e.values:
            if isinstance(v, ast.Constant):
                out.append(str(v.value))
                continue
            assert isinstance(v, ast.FormattedValue)
            val = self.ev(v.value, env)
            if isinstance(val, Decimals):
                used_decimals = True
            spec, canon = ("", False)
            if v.format_spec is not None:
                spec, canon = self.fstring(v.format_spec, env)  # type: ignore[arg-type]
                if not isinstance(spec, str):
                    raise self.unknown(e, "format specification")
            conv = {-1: "", 115: "s", 114: "r", 97: "a"}.get(v.conversion, "?")
            out.append(self.format_value(val, spec, canon, conv, v))
        return "".join(out), used_decimals

    def format_value(self, val: Any, spec: str, canon: bool, conv: str, e: ast.AST) -> str:
        if conv == "r":
            return self.to_repr(val, e)
        if isinstance(val, Sym):
            if canon and spec == f".{int(self.decimals)}f":
                return placeholder(val)
            return placeholder(val, f"fmt({spec})" if spec else "str")
        if isinstance(val, App):
            raise self.unknown(e, "formatting a derived symbolic value")
        if isinstance(val, bool) or val is None:
            if spec:
                raise self.unknown(e, "format specification on a non-number")
            return str(val)
        if isinstance(val, (int, float)):
            try:
                return format(val, spec)
            except (ValueError, TypeError):
                raise Internal("ValueError", f"`{unparse(e)[:60]}`: bad format specification", e) from None
        if isinstance(val, str):
            try:
                return format(val, spec)
            except (ValueError, TypeError):
                raise Internal("ValueError", f"`{unparse(e)[:60]}`: bad format specification for a string", e) from None
        return self.to_str(val, e)

    def to_str(self, val: Any, e: ast.AST) -> str:
        if isinstance(val, str):
            return val
        if isinstance(val, Sym):
            return placeholder(val, "str")
        if isinstance(val, (bool, int, float)) or val is None:
            return str(val)
        if isinstance(val, MObj):
            ci = self.class_of(val)
            if ci is not None:
                m = ci.lookup("__str__") or ci.lookup("__repr__")
                if m is not None:
                    r = self.invoke(m, [val], {}, e)
                    if isinstance(r, str):
                        return r
            if val.fields.get("__enum__"):
                return f"{val.cls.split('.')[-1]}.{val.fields['name']}"
        if isinstance(val, (list, tuple)):
            inner = ", ".join(self.to_repr(x, e) for x in val)
            return f"[{inner}]" if isinstance(val, list) else (f"({inner},)" if len(val) == 1 else f"({inner})")
        if isinstance(val, ClassV):
            return f"<class '{val.qual}'>"
        raise self.unknown(e, f"str() of {type(val).__name__}")

    def to_repr(self, val: Any, e: ast.AST) -> str:
        if isinstance(val, str):
            return repr(val)
        if isinstance(val, Sym):
            return placeholder(val, "repr")
        if isinstance(val, MObj):
            ci = self.class_of(val)
            if ci is not None:
                m = ci.lookup("__repr__")
                if m is not None:
                    r = self.invoke(m, [val], {}, e)
                    if isinstance(r, str):
                        return r
                    raise self.unknown(e, "__repr__ that does not return a string")
            if val.fields.get("__enum__"):
                return f"<{val.cls.split('.')[-1]}.{val.fields['name']}: {val.fields['value']!r}>"
        if isinstance(val, dict):
            return "{" + ", ".join(f"{self.to_repr(k, e)}: {self.to_repr(v, e)}" for k, v in val.items()) + "}"
        return self.to_str(val, e)

    def attr(self, v: Any, name: str, e: ast.AST) -> Any:
        if type(v).__name__ in ("Match", "Pattern") and type(v).__module__ == "re":
            if name in ("pattern", "flags", "string", "re", "lastgroup", "lastindex"):
                return getattr(v, name)
            return ("bound", v, name)
        if isinstance(v, Arr):
            if name == "T":
                return v.transpose()
            if name == "shape":
                return v.shape
            if name == "ndim":
                return v.ndim
            if name == "size":
                return len(v.flat())
            return ("bound", v, name)
        if isinstance(v, ClassV):
            c = self.p.classes[v.qual]
            if name == "__name__":
                return c.name
            if name == "__qualname__":
                return c.qualname
            if name in c.inner:
                return ClassV(c.inner[name].qualname)
            for k in c.mro:
                if name in k.inner:
                    return ClassV(k.inner[name].qualname)
            if c.is_enum:
                for m in self.members(c):
                    if m.fields["name"] == name:
                        return m
            f = c.lookup(name)
            if f is not None:
                if "staticmethod" in f.decorators:
                    return FuncV(f)
                if "classmethod" in f.decorators:
                    return FuncV(f, bound=v)
                return FuncV(f)  # unbound: self is passed explicitly
            if name == "__init__":
                return Opaque("object.__init__")  # no constructor in the class hierarchy
            ca = c.lookup_class_attr(name)
            if ca is not None:
                return self.ev(ca, {"<class>": c.qualname})
            raise Internal("AttributeError", f"`{unparse(e)}`: class {c.name} has no attribute {name}", e)
        if isinstance(v, FuncV):
            if name == "__name__":
                return v.fi.name
            raise self.unknown(e, "attribute of a function")
        if hasattr(v, "model_name") and name == "__name__":
            return v.model_name
        if v == ("builtin", "object") and name == "__init__":
            return Opaque("object.__init__")
        if isinstance(v, MObj) and self.class_of(v) is not None:
            c = self.class_of(v)
            assert c is not None
            if v.fields.get("__enum__"):
                if name in ("name", "value"):
                    return v.fields[name]
            if name == "__class__":
                return ClassV(c.qualname)
            if name == "__dict__":
                return v.fields
            g = c.lookup_getter(name)
            if g is not None:
                return self.invoke(g, [v], {}, e)
            if name in v.fields:
                return v.fields[name]
            f = c.lookup(name)
            if f is not None:
                if "staticmethod" in f.decorators:
                    return FuncV(f)
                if "classmethod" in f.decorators:
                    return FuncV(f, bound=ClassV(c.qualname))
                return FuncV(f, bound=v)
            ca = c.lookup_class_attr(name)
            if ca is not None:
                return self.ev(ca, {"<class>": c.qualname})
            if f"method:{name}" in self.hooks:
                return ("bound", v, name)
            raise Internal("AttributeError", f"`{unparse(e)}`: {c.name} object has no attribute {name}", e)
        if isinstance(v, (str, list, tuple, dict, set, frozenset, int, float)) and not (isinstance(v, tuple) and v and v[0] in ("class", "builtin", "bound", "exc-class")):
            return ("bound", v, name)
        if isinstance(v, TypeV):
            return TypeV(f"{v.name}.{name}")
        if isinstance(v, Opaque) and v.what in ("builtins", "import:builtins"):
            return ("builtin", name)
        if isinstance(v, Opaque):
            return Opaque(f"{v.what}.{name}")
        return super().attr(v, name, e)

    def call(self, e: ast.Call, env: dict[str, Any]) -> Any:
        # super().m(...)
        if isinstance(e.func, ast.Attribute) and isinstance(e.func.value, ast.Call) and isinstance(e.func.value.func, ast.Name) and e.func.value.func.id == "super" \
                and not e.func.value.args:
            me = env.get("<self>")
            here = env.get("<class>")
            ci = self.class_of(me) if isinstance(me, MObj) else (self.p.classes.get(me.qual) if isinstance(me, ClassV) else None)
            if ci is None or here is None:
                raise self.unknown(e, "super() outside a method of a model object")
            quals = [k.qualname for k in ci.mro]
            if here not in quals:
                raise self.unknown(e, "super(): the defining class is not in the MRO of the receiver")
            target = None
            for k in ci.mro[quals.index(here) + 1:]:
                if e.func.attr in k.methods:
                    target = k.methods[e.func.attr]
                    break
            args, kw = self.arguments(e, env)
            if target is None:
                if e.func.attr == "__init__":
                    return None  # object.__init__
                raise Internal("AttributeError", f"`{unparse(e)[:60]}`", e)
            return self.invoke(target, [me] + args, kw, e)
        f = self.ev(e.func, env)
        if isinstance(f, ClassV):
            args, kw = self.arguments(e, env)
            return self.instantiate(self.p.classes[f.qual], args, kw, e)
        if isinstance(f, FuncV):
            args, kw = self.arguments(e, env)
            pre = [f.bound] if f.bound is not None else []
            return self.invoke(f.fi, pre + args, kw, e)
        if isinstance(f, tuple) and len(f) == 2 and f[0] == "builtin" and f[1] in ("str", "repr", "isinstance", "issubclass", "float", "int", "bool", "type", "callable", "map", "filter",
                                                                                 "format", "getattr", "hasattr", "setattr", "len", "iter", "next", "print", "id", "hash", "vars", "list", "tuple", "sorted", "object"):
            args, kw = self.arguments(e, env)
            r = self.own_builtin(f[1], args, kw, e, env)
            if r is not NotImplemented:
                return r
            env2 = dict(env)
            names = []
            for i, a in enumerate(args):
                env2[f"<a{i}>"] = a
                names.append(ast.Name(id=f"<a{i}>", ctx=ast.Load()))
            kws = []
            for k, v in kw.items():
                env2[f"<k{k}>"] = v
                kws.append(ast.keyword(arg=k, value=ast.Name(id=f"<k{k}>", ctx=ast.Load())))
            return super().call(ast.copy_location(ast.Call(func=e.func, args=names, keywords=kws), e), env2)
        if isinstance(f, TypeV) or isinstance(f, Opaque):
            args, kw = self.arguments(e, env)
            h = self.func_hooks.get(f"ext:{f.name if isinstance(f, TypeV) else f.what}")
            if h is not None:
                return h(self, e, args, kw)
            what = f.name if isinstance(f, TypeV) else f.what
            what = what.removeprefix("import:")
            if what in ("deque", "collections.deque"):  # modelled as a list (append / appendleft / pop / popleft are list methods of the interpreter)
                return list(self.iterate(args[0], e)) if args else []
            if what in ("itertools.chain", "chain"):  # pure functions of the standard library, by their documented meaning
                return [x for a_ in args for x in self.iterate(a_, e)]
            if what in ("itertools.chain.from_iterable", "chain.from_iterable"):
                return [x for a_ in self.iterate(args[0], e) for x in self.iterate(a_, e)]
            if what in ("copy.copy",) and len(args) == 1 and isinstance(args[0], (list, dict, set)):
                return type(args[0])(args[0])
            if what in ("typing.cast", "cast") and len(args) == 2:
                return args[1]
            r = self.regex(what, args, kw, e)
            if r is not NotImplemented:
                return r
            if what.startswith("np."):  # numpy is uninterpreted: the result is a value nothing is known about
                from .absexec import freeze
                return App(what, tuple(freeze(a) for a in args), tuple(sorted((k, freeze(x)) for k, x in kw.items())))
            raise self.unknown(e, f"call of {f}")
        # the callee was evaluated once above: hand the value on (evaluating `xs.pop().items` a second time would pop twice)
        env2 = dict(env)
        env2["<callee>"] = f
        e2 = ast.copy_location(ast.Call(func=ast.copy_location(ast.Name(id="<callee>", ctx=ast.Load()), e.func), args=e.args, keywords=e.keywords), e)
        return super().call(e2, env2)

    def regex(self, what: str, args: list[Any], kw: dict[str, Any], e: ast.AST) -> Any:
        """Regular expressions on concrete strings (patterns compiled or not): pure functions of the standard library, by their documented meaning."""
        import re as _re

        concrete = lambda a_: isinstance(a_, (str, int, _re.Pattern))  # noqa: E731
        if what.startswith("re.") and what[3:] in ("sub", "subn", "split", "findall", "match", "fullmatch", "search", "escape", "compile") and \
                all(concrete(a_) for a_ in list(args) + list(kw.values())):
            try:
                return getattr(_re, what[3:])(*args, **kw)
            except _re.error:
                raise Raised("re.error", e) from None
        return NotImplemented

    def arguments(self, e: ast.Call, env: dict[str, Any]) -> tuple[list[Any], dict[str, Any]]:
        args: list[Any] = []
        for a in e.args:
            if isinstance(a, ast.Starred):
                args += list(self.iterate(self.ev(a.value, env), a))
            else:
                args.append(self.ev(a, env))
        kw: dict[str, Any] = {}
        for k in e.keywords:
            if k.arg is None:
                d = self.ev(k.value, env)
                if not isinstance(d, dict):
                    raise self.unknown(e, "** of a value that is not a dictionary")
                kw.update(d)
            else:
                kw[k.arg] = self.ev(k.value, env)
        return args, kw

    def str_format(self, template: str, args: list[Any], kw: dict[str, Any], e: ast.AST) -> str:
        """`template.format(*args, **kw)`: replacement fields filled through the same formatting as f-strings (simple field names only)."""
        import string

        out: list[str] = []
        auto = 0
        try:
            fields = list(string.Formatter().parse(template))
        except ValueError:
            raise Raised("ValueError", e) from None
        for literal, field, spec, conv in fields:
            out.append(literal)
            if field is None:
                continue
            if field == "":
                if auto >= len(args):
                    raise Internal("IndexError", f"`{unparse(e)[:60]}`: replacement index out of range", e)
                val = args[auto]
                auto += 1
            elif field.isdigit():
                if int(field) >= len(args):
                    raise Internal("IndexError", f"`{unparse(e)[:60]}`: replacement index out of range", e)
                val = args[int(field)]
            elif field.isidentifier():
                if field not in kw:
                    raise Internal("KeyError", f"`{unparse(e)[:60]}`: no argument {field}", e)
                val = kw[field]
            else:
                raise self.unknown(e, "compound replacement field in str.format")
            if spec and "{" in spec:
                raise self.unknown(e, "nested replacement field in a format specification")
            out.append(self.format_value(val, spec or "", False, conv or "", e))
        return "".join(out)

    def isinstance_(self, v: Any, spec: Any, e: ast.AST) -> bool:
        if isinstance(spec, tuple) and not (len(spec) == 2 and spec[0] in ("builtin", "class") and isinstance(spec[1], str)):
            return any(self.isinstance_(v, s, e) for s in spec)
        if isinstance(spec, ClassV):
            ci = self.class_of(v)
            if ci is None:
                return False
            if isinstance(v, MObj) and v.fields.get("__enum__") and spec.qual == v.cls:
                return True
            return any(k.qualname == spec.qual for k in ci.mro)
        if isinstance(spec, tuple) and spec[0] == "builtin":
            spec = TypeV(spec[1])
        if isinstance(spec, TypeV):
            if spec.name in ("float", "np.floating", "numpy.floating") and isinstance(v, (Sym, App)):
                return spec.name == "float"  # the model's symbolic numbers are Python floats
            pt = PY_TYPES.get(spec.name)
            if pt is not None:
                if isinstance(v, (MObj, Sym, App, ClassV, FuncV)):
                    return spec.name == "object"
                if spec.name == "int" and isinstance(v, bool):
                    return True
                if spec.name == "float":
                    return isinstance(v, float)
                if spec.name in ("tuple",) and isinstance(v, tuple) and v and v[0] in ("builtin", "bound", "exc-class") and len(v) in (2, 3):
                    return False
                return isinstance(v, pt)
            if spec.name in ("np.ndarray", "numpy.ndarray"):
                return isinstance(v, Arr)
            if spec.name.startswith(("np.", "numpy.")) or spec.name in ("Enum", "enum.Enum"):
                if spec.name in ("Enum", "enum.Enum"):
                    return isinstance(v, MObj) and bool(v.fields.get("__enum__"))
                return False  # the model holds no numpy values
        if isinstance(spec, Opaque):
            if spec.what in ("np.ndarray", "numpy.ndarray"):
                return isinstance(v, Arr)
            if spec.what.startswith(("np.", "numpy.", "import:numpy")):
                return False
        raise self.unknown(e, f"isinstance against {spec!r}")

    def own_builtin(self, name: str, args: list[Any], kw: dict[str, Any], e: ast.AST, env: dict[str, Any]) -> Any:
        if name == "isinstance" and len(args) == 2:
            return self.isinstance_(args[0], args[1], e)
        if name == "issubclass" and len(args) == 2 and isinstance(args[0], ClassV):
            specs = args[1] if isinstance(args[1], tuple) else (args[1],)
            ci = self.p.classes[args[0].qual]
            return any(isinstance(s, ClassV) and any(k.qualname == s.qual for k in ci.mro) for s in specs)
        if name == "str" and len(args) == 1:
            return self.to_str(args[0], e)
        if name == "str" and not args:
            return ""
        if name == "repr" and len(args) == 1:
            return self.to_repr(args[0], e)
        if name == "format" and len(args) == 2 and isinstance(args[1], str):
            # the specification is a string value here: it is the library's number format when it spells the current decimals setting
            return self.format_value(args[0], args[1], getattr(self, "_spec_from_decimals", False) or args[1] == f".{int(self.decimals)}f", "", e)
        if name == "float" and len(args) == 1:
            return self.to_number(args[0], e)
        if name == "int" and len(args) == 1:
            v = args[0]
            if isinstance(v, str):
                try:
                    return int(v)
                except ValueError:
                    raise Raised("ValueError", e) from None
            if isinstance(v, (int, float)):
                return int(v)
            if isinstance(v, Sym):
                return App("int", (v,))
            raise self.unknown(e, "int()")
        if name == "bool" and len(args) == 1:
            return self.truth(args[0], e)
        if name == "type" and len(args) == 1:
            v = args[0]
            if isinstance(v, MObj) and self.class_of(v) is not None:
                return ClassV(v.cls)
            for tn in ("bool", "int", "float", "str", "list", "tuple", "dict"):
                if type(v) is PY_TYPES[tn][0]:
                    return TypeV(tn)
            raise self.unknown(e, "type()")
        if name == "callable" and len(args) == 1:
            return isinstance(args[0], (FuncV, Closure, ClassV))
        if name == "map" and len(args) == 2:
            return [self.apply(args[0], [x], {}, e) for x in self.iterate(args[1], e)]
        if name == "filter" and len(args) == 2:
            return [x for x in self.iterate(args[1], e) if self.truth(self.apply(args[0], [x], {}, e) if args[0] is not None else x, e)]
        if name == "getattr" and len(args) >= 2 and isinstance(args[1], str) and isinstance(args[0], (MObj, ClassV)):
            try:
                return self.attr(args[0], args[1], e)
            except Internal as ie:
                if ie.cls == "AttributeError" and len(args) == 3:
                    return args[2]
                raise
        if name == "hasattr" and len(args) == 2 and isinstance(args[1], str) and isinstance(args[0], (MObj, ClassV)):
            try:
                self.attr(args[0], args[1], e)
                return True
            except Internal as ie:
                if ie.cls == "AttributeError":
                    return False
                raise
        if name == "setattr" and len(args) == 3 and isinstance(args[0], MObj) and isinstance(args[1], str):
            self.store_attr(args[0], args[1], args[2], e)
            return None
        if name == "len" and len(args) == 1:
            v = args[0]
            if isinstance(v, str):
                return len(v)
            if isinstance(v, Arr):
                return len(v.data)
            if isinstance(v, MObj) and self.class_of(v) is not None:
                m = self.class_of(v).lookup("__len__")  # type: ignore[union-attr]
                if m is None:
                    raise Internal("TypeError", f"`{unparse(e)[:60]}`: object has no len()", e)
                return self.invoke(m, [v], {}, e)
        if name == "iter" and len(args) == 1:
            if isinstance(args[0], ListIter):
                return args[0]
            return ListIter(list(self.iterate(args[0], e)))
        if name == "next" and args and isinstance(args[0], ListIter):
            it = args[0]
            if it.pos < len(it.items):
                it.pos += 1
                return it.items[it.pos - 1]
            if len(args) > 1:
                return args[1]
            raise Raised("StopIteration", e)
        if name in ("list", "tuple") and len(args) == 1 and isinstance(args[0], ListIter):
            rest = args[0].items[args[0].pos:]
            args[0].pos = len(args[0].items)
            return tuple(rest) if name == "tuple" else list(rest)
        if name in ("iter", "list", "tuple", "sorted") and len(args) == 1 and isinstance(args[0], str):
            items = list(args[0])
            return tuple(items) if name == "tuple" else (sorted(items) if name == "sorted" else items)
        if name == "print":
            return None
        if name == "object" and not args:
            return MObj("<object>", {})  # a sentinel: an object equal only to itself
        if name in ("id", "hash") and len(args) == 1:
            return id(args[0])
        if name == "vars" and len(args) == 1 and isinstance(args[0], MObj):
            return args[0].fields
        return NotImplemented

    def to_array(self, v: Any, e: ast.AST) -> Any:
        """`scalar(v)` / `np.array(v, dtype=float)`: numbers stay numbers, (nested) sequences become arrays of numbers."""
        if isinstance(v, Arr):
            return v
        if isinstance(v, (list, tuple)):
            items = [self.to_array(x, e) for x in v]
            if any(isinstance(x, Arr) for x in items):
                if not all(isinstance(x, Arr) and x.ndim == 1 for x in items) or len({len(x.data) for x in items}) > 1:
                    raise Raised("ValueError", e)  # inhomogeneous shape
                return Arr([list(x.data) for x in items], 2)
            return Arr(items, 1)
        return self.to_number(v, e)

    def to_number(self, v: Any, e: ast.AST) -> Any:
        if isinstance(v, str):
            ph = read_placeholder(v)
            if ph is not None:
                return ph
            try:
                return float(v)
            except ValueError:
                raise Raised("ValueError", e) from None
        if isinstance(v, bool):
            return float(v)
        if isinstance(v, (int, float)):
            return float(v)
        if isinstance(v, (Sym, App)):
            return v
        if v is None or isinstance(v, (list, tuple, dict, MObj)):
            raise Internal("TypeError", f"`{unparse(e)[:60]}`: float() of {type(v).__name__}", e)
        raise self.unknown(e, "float()")

    def apply(self, f: Any, args: list[Any], kw: dict[str, Any], e: ast.AST) -> Any:
        if isinstance(f, FuncV):
            return self.invoke(f.fi, ([f.bound] if f.bound is not None else []) + args, kw, e)
        if isinstance(f, Closure):
            return self.call_closure(f, args, kw, e)
        if isinstance(f, ClassV):
            return self.instantiate(self.p.classes[f.qual], args, kw, e)
        if isinstance(f, tuple) and len(f) == 2 and f[0] == "builtin":
            r = self.own_builtin(f[1], args, kw, e, {})
            if r is not NotImplemented:
                return r
        if callable(f) and not isinstance(f, tuple):
            return f(self, e, args, kw)
        if isinstance(f, Opaque) and f.what.removeprefix("import:").startswith("re."):
            r = self.regex(f.what.removeprefix("import:"), args, kw, e)
            if r is not NotImplemented:
                return r
        raise self.unknown(e, "application of a value that is not a modelled function")

    def iterate(self, v: Any, e: ast.AST):  # type: ignore[no-untyped-def]
        if isinstance(v, ListIter):
            rest = v.items[v.pos:]
            v.pos = len(v.items)
            return rest
        if isinstance(v, str):
            return list(v)
        if isinstance(v, Arr):
            return list(v.data) if v.ndim == 1 else [Arr(list(r), 1) for r in v.data]
        if isinstance(v, ClassV) and self.p.classes[v.qual].is_enum:
            return self.members(self.p.classes[v.qual])
        if isinstance(v, MObj) and self.class_of(v) is not None:
            ci = self.class_of(v)
            m = ci.lookup("__iter__")  # type: ignore[union-attr]
            if m is not None:
                return list(self.iterate(self.invoke(m, [v], {}, e), e))
            raise Internal("TypeError", f"`{unparse(e)[:60]}`: object is not iterable", e)
        if v is None or isinstance(v, (bool, int, float, Sym)):
            raise Internal("TypeError", f"`{unparse(e)[:60]}`: {type(v).__name__} is not iterable", e)
        return super().iterate(v, e)

    def truth(self, v: Any, e: ast.AST) -> bool:
        if isinstance(v, str):
            return bool(v)
        if type(v).__name__ in ("Match", "Pattern") and type(v).__module__ == "re":
            return True
        if isinstance(v, float) and v != v:
            return True
        if isinstance(v, MObj) and self.class_of(v) is not None and "__bool__" not in v.fields:
            ci = self.class_of(v)
            assert ci is not None
            if v.fields.get("__enum__"):
                return True
            m = ci.lookup("__bool__")
            if m is not None:
                return self.truth(self.invoke(m, [v], {}, e), e)
            m = ci.lookup("__len__")
            if m is not None:
                n = self.invoke(m, [v], {}, e)
                if isinstance(n, int):
                    return n > 0
                raise self.unknown(e, "__len__ that is not a number")
            return True
        if isinstance(v, (ClassV, FuncV)):
            return True
        if isinstance(v, Sym):
            return True  # a generic number: different from every constant, zero included
        return super().truth(v, e)

    def contains(self, c: Any, x: Any, e: ast.AST) -> bool:
        if isinstance(c, str):
            if isinstance(x, str):
                return x in c
            raise Internal("TypeError", f"`{unparse(e)[:60]}`: 'in <string>' requires string as left operand", e)
        if isinstance(c, MObj) and c.cls == "<factory>" and getattr(self, "factory_contains", None) is not None:
            return self.factory_contains(c, x)
        if isinstance(c, MObj) and self.class_of(c) is not None:
            m = self.class_of(c).lookup("__contains__")  # type: ignore[union-attr]
            if m is not None:
                return self.truth(self.invoke(m, [c, x], {}, e), e)
            return any(self.equal(x, y, e) for y in self.iterate(c, e))
        if isinstance(c, (list, tuple, set, frozenset)):
            return any(self.equal(x, y, e) for y in c)
        if isinstance(c, dict):
            return any(self.equal(x, y, e) for y in c)
        return super().contains(c, x, e)

    def method(self, recv: Any, name: str, args: list[Any], kw: dict[str, Any], e: ast.AST) -> Any:
        if type(recv).__name__ == "Pattern" and type(recv).__module__ == "re" and name in ("sub", "subn", "split", "findall", "match", "fullmatch", "search"):
            r = self.regex(f"re.{name}", [recv] + list(args), kw, e)
            if r is not NotImplemented:
                return r
        if type(recv).__name__ == "Match" and type(recv).__module__ == "re" and name in ("group", "groups", "start", "end", "span", "groupdict"):
            return getattr(recv, name)(*args)
        if isinstance(recv, Arr):
            if name in ("flatten", "ravel") and not args:
                return Arr(recv.flat(), 1)
            if name == "tolist" and not args:
                return [list(r) for r in recv.data] if recv.ndim == 2 else list(recv.data)
            if name == "transpose" and not args:
                return recv.transpose()
            if name == "copy":
                return Arr([list(r) for r in recv.data] if recv.ndim == 2 else (list(recv.data) if recv.ndim == 1 else recv.data), recv.ndim)
            if name == "item" and not args and len(recv.flat()) == 1:
                return recv.flat()[0]
            raise self.unknown(e, f"array method {name}")
        if isinstance(recv, str) and f"method:{name}" not in self.hooks:
            if name == "join" and len(args) == 1:
                items = list(self.iterate(args[0], e))
                bad = [x for x in items if not isinstance(x, str)]
                if bad:
                    raise Internal("TypeError", f"`{unparse(e)[:60]}`: sequence item is not a string ({type(bad[0]).__name__})", e)
                return recv.join(items)
            if name == "format":
                return self.str_format(recv, args, kw, e)
            if hasattr(str, name):
                if not all(isinstance(a, (str, int, type(None), tuple)) for a in list(args) + list(kw.values())):
                    raise Internal("TypeError", f"`{unparse(e)[:60]}`", e)
                try:
                    return getattr(recv, name)(*args, **kw)
                except ValueError:
                    raise Raised("ValueError", e) from None
                except TypeError:
                    raise Internal("TypeError", f"`{unparse(e)[:60]}`", e) from None
            raise Internal("AttributeError", f"`{unparse(e)[:60]}`", e)
        if isinstance(recv, set) and name == "pop" and not args:
            if not recv:
                raise Internal("KeyError", f"`{unparse(e)[:60]}`: pop from an empty set", e)
            if len(recv) > 1:
                raise self.unknown(e, "pop from a set of several elements (which one is not determined)")
            return recv.pop()
        if isinstance(recv, (int, float)) and not isinstance(recv, bool) and name in ("is_integer",):
            return float(recv).is_integer()
        return super().method(recv, name, args, kw, e)

    # ------------------------------------------------------------------ statements
    def store_attr(self, base: MObj, name: str, v: Any, e: ast.AST) -> None:
        ci = self.class_of(base)
        if ci is not None:
            s = ci.lookup_setter(name)
            if s is not None:
                self.invoke(s, [base, v], {}, e)
                return
            if ci.lookup_getter(name) is not None:
                raise Internal("AttributeError", f"`{unparse(e)[:60]}`: property {name} has no setter", e)
        base.fields[name] = v

    def bind(self, target: ast.AST, v: Any, env: dict[str, Any]) -> None:
        if isinstance(target, ast.Attribute):
            base = self.ev(target.value, env)
            if isinstance(base, MObj) and self.class_of(base) is not None:
                self.store_attr(base, target.attr, v, target)
                return
            if base is None:
                raise Internal("AttributeError", f"`{unparse(target)}`: attribute store on None", target)
        if isinstance(target, (ast.Tuple, ast.List)) and any(isinstance(t, ast.Starred) for t in target.elts):
            vs = list(self.iterate(v, target))
            k = next(i for i, t in enumerate(target.elts) if isinstance(t, ast.Starred))
            after = len(target.elts) - k - 1
            if len(vs) < len(target.elts) - 1:
                raise Raised("ValueError", target)
            for t, x in zip(target.elts[:k], vs[:k]):
                self.bind(t, x, env)
            self.bind(target.elts[k].value, vs[k:len(vs) - after], env)  # type: ignore[attr-defined]
            for t, x in zip(target.elts[k + 1:], vs[len(vs) - after:] if after else []):
                self.bind(t, x, env)
            return
        if isinstance(target, (ast.Tuple, ast.List)) and isinstance(v, str):
            v = list(v)
        super().bind(target, v, env)

    def stmt(self, s: ast.stmt, env: dict[str, Any]) -> None:
        if isinstance(s, ast.Raise) and s.exc is not None:
            # the message of an exception is not evaluated: only its class matters
            x = s.exc
            f = x.func if isinstance(x, ast.Call) else x
            if isinstance(f, ast.Name) and f.id not in env:
                cls = f.id
                if cls in BUILTIN_EXC or cls.endswith(("Error", "Exception")):
                    raise Raised(cls, s)
        if isinstance(s, (ast.Import, ast.ImportFrom)):
            from .absexec import stdlib

            for a in s.names:
                nm = a.asname or a.name.split(".")[0]
                if nm in self.globals:
                    continue  # the analysis supplies a model of this name
                if isinstance(s, ast.Import) and a.name in ("functools", "operator", "itertools"):
                    env[nm] = stdlib(a.name)
                    continue
                if isinstance(s, ast.ImportFrom) and s.module in ("functools", "operator", "itertools") and a.name in stdlib(s.module).fields:
                    env[a.asname or a.name] = stdlib(s.module).fields[a.name]
                    continue
                if nm in self.alias or nm in self.simple or any(q == nm and f.cls is None for q, f in self.p.functions.items()):
                    env.pop(nm, None)  # a class / function of the package: resolved by name
                    continue
                env[nm] = Opaque(a.name if isinstance(s, ast.Import) else nm)
            return
        if isinstance(s, ast.For):
            it = self.ev(s.iter, env)
            if isinstance(it, ListIter):
                from .absexec import _Break, _Continue

                broke = False
                while it.pos < len(it.items):
                    it.pos += 1
                    self.bind(s.target, it.items[it.pos - 1], env)
                    try:
                        self.block(s.body, env)
                    except _Break:
                        broke = True
                        break
                    except _Continue:
                        continue
                if not broke:
                    self.block(s.orelse, env)
                return
            env2 = env
            env2["<iter>"] = it
            super().stmt(ast.copy_location(ast.For(target=s.target, iter=ast.Name(id="<iter>", ctx=ast.Load()), body=s.body, orelse=s.orelse), s), env2)
            return
        if isinstance(s, ast.ClassDef):
            raise self.unknown(s, "local class")
        if isinstance(s, ast.With):
            # `with settings.context(...)`: outside the model
            raise self.unknown(s, "with statement")
        super().stmt(s, env)
