"""Exhaustive decisions for code that touches values only through comparisons.

A *role* is a quantity named by the specification (d = activation degree, n = number of rules,
t = threshold, count = rules triggered so far, ...). Expressions of the program are bound to roles
by their resolved origin (sym.Term), never by their spelling. For a region of a CFG whose tests only
compare roles, every weak order of the role values is enumerated and the region is interpreted
abstractly under each: which target statements execute is then a total function of the ordering and
is compared with the specification predicate. A test that consults anything that is not a role is
explored both ways and reported as non-deterministic.
"""

from __future__ import annotations

import ast
import itertools
from typing import Any, Callable, Iterable

from .cfg import CFG, Node
from .pm import AnalysisError, unparse
from .sym import Resolver, Term

UNKNOWN = object()


def weak_orders(names: list[str], fixed: dict[str, float] | None = None) -> Iterable[dict[str, int]]:
    """All weak orders of `names` as integer assignments (one representative per order).

    `fixed` gives known numeric values for some names (constants): orders contradicting them are skipped.
    """
    n = len(names)
    seen: set[tuple[int, ...]] = set()
    for combo in itertools.product(range(n), repeat=n):
        # canonical form: ranks must be dense 0..k
        ranks = sorted(set(combo))
        canon = tuple(ranks.index(c) for c in combo)
        if canon in seen:
            continue
        seen.add(canon)
        env = dict(zip(names, canon))
        if fixed:
            ok = True
            fx = [k for k in names if k in fixed]
            for a, b in itertools.combinations(fx, 2):
                if (fixed[a] < fixed[b]) != (env[a] < env[b]) or (fixed[a] == fixed[b]) != (env[a] == env[b]):
                    ok = False
                    break
            if not ok:
                continue
        yield env


class RoleEval:
    """Evaluates test expressions under an assignment of role values.

    Evaluation works on the *resolved* term of the test (locals substituted by their definitions), so
    temporaries, De Morgan rewrites and split conditions do not change the outcome.
    """

    def __init__(self, resolver: Resolver, classify: Callable[[Term, ast.AST | None], str | None]):
        self.r = resolver
        self.classify = classify
        self.unknown_atoms: list[str] = []

    def role_of_term(self, t: Term, e: ast.AST | None = None) -> str | None:
        if t[0] == "const" and isinstance(t[1], (int, float)) and not isinstance(t[1], bool):
            return f"const:{float(t[1])}"
        return self.classify(t, e)

    def role(self, e: ast.AST, node: Node) -> str | None:
        return self.role_of_term(self.r.term(e, node), e)

    def roles_in(self, e: ast.AST, node: Node) -> set[str]:
        return self.roles_in_term(self.r.term(e, node), e)

    def roles_in_term(self, t: Term, e: ast.AST | None = None) -> set[str]:
        from .sym import walk

        out: set[str] = set()

        def rec(x: Any, top: bool) -> None:
            if isinstance(x, tuple) and x and isinstance(x[0], str):
                rl = self.role_of_term(x, e if top else None)
                if rl is not None:
                    out.add(rl)
                    return
                for y in x[1:]:
                    rec(y, False)
            elif isinstance(x, (tuple, list, frozenset, set)):
                for y in x:
                    rec(y, False)

        rec(t, True)
        return out

    def value(self, e: ast.AST, node: Node, env: dict[str, Any]) -> Any:
        return self.eval_term(self.r.term(e, node), env, e)

    def eval_term(self, t: Term, env: dict[str, Any], e: ast.AST | None = None) -> Any:
        from .sym import show

        rl = self.role_of_term(t, e)
        if rl is not None:
            if rl not in env:
                if rl.startswith("const:") and t[0] == "const":
                    return t[1]  # a literal keeps its own value when the enumeration is over concrete numbers
                raise AnalysisError(f"role {rl} has no value in the enumeration")
            return env[rl]
        k = t[0]
        if k == "bool":
            vals = [self.eval_term(v, env) for v in t[2]]
            if t[1] == "and":
                if any(v is not UNKNOWN and not v for v in vals):
                    return False
                return UNKNOWN if any(v is UNKNOWN for v in vals) else True
            if any(v is not UNKNOWN and bool(v) for v in vals):
                return True
            return UNKNOWN if any(v is UNKNOWN for v in vals) else False
        if k == "unop" and t[1] == "not":
            v = self.eval_term(t[2], env)
            return UNKNOWN if v is UNKNOWN else (not v)
        if k == "ifexp":
            c = self.eval_term(t[1], env)
            if c is UNKNOWN:
                return UNKNOWN
            return self.eval_term(t[2] if c else t[3], env)
        if k == "cmp" and t[1] in (("not in",), ("is not",), ("!=",)) and self.role_of_term(("cmp", ({"not in": "in", "is not": "is", "!=": "=="}[t[1][0]],), t[2])) is not None:
            # the negated spelling of a comparison that is a role in its positive spelling
            v = self.eval_term(("cmp", ({"not in": "in", "is not": "is", "!=": "=="}[t[1][0]],), t[2]), env)
            return UNKNOWN if v is UNKNOWN else (not v)
        if k == "cmp":
            vals = [self.eval_term(x, env) for x in t[2]]
            if any(v is UNKNOWN for v in vals):
                return UNKNOWN
            res = True
            for op, a, b in zip(t[1], vals, vals[1:]):
                try:
                    if op == "<":
                        r = a < b
                    elif op == "<=":
                        r = a <= b
                    elif op == ">":
                        r = a > b
                    elif op == ">=":
                        r = a >= b
                    elif op == "==":
                        r = a == b
                    elif op == "!=":
                        r = a != b
                    elif op in ("is", "is not") and (a is None or b is None or (isinstance(a, bool) and isinstance(b, bool))):
                        r = (a is b) if op == "is" else (a is not b)
                    else:
                        self.unknown_atoms.append(show(t))
                        return UNKNOWN
                except TypeError:
                    self.unknown_atoms.append(show(t))
                    return UNKNOWN
                res = res and r
            return res
        if k == "const":
            return t[1]
        if k == "sub" and t[1][0] == "mapped" and t[2][0] == "index" and t[2][1] == t[1][1]:
            # [f(v) for v in X][i] with i the position of the current element of X: f of the current element
            return self.eval_term(t[1][2], env)
        if k == "binop" and t[1] in ("+", "-", "*", "%", "//"):
            a, b = self.eval_term(t[2], env), self.eval_term(t[3], env)
            if isinstance(a, (int, float)) and isinstance(b, (int, float)):
                a, b = (int(a) if isinstance(a, bool) else a), (int(b) if isinstance(b, bool) else b)
                if t[1] in ("%", "//"):
                    if b == 0:
                        return UNKNOWN
                    return a % b if t[1] == "%" else a // b
                return a + b if t[1] == "+" else (a - b if t[1] == "-" else a * b)
            return UNKNOWN
        if k == "phi":
            vals = {repr(v): v for v in (self.eval_term(a, env) for a in t[1])}
            if len(vals) == 1:
                return next(iter(vals.values()))
            self.unknown_atoms.append(show(t))
            return UNKNOWN
        if k == "call" and t[1] == ("global", "bool") and len(t[2]) == 1:
            v = self.eval_term(t[2][0], env)
            return UNKNOWN if v is UNKNOWN else bool(v)
        self.unknown_atoms.append(show(t))
        return UNKNOWN


def simulate(cfg: CFG, start: Node, ev: RoleEval, env: dict[str, Any], targets: set[Node], stop: set[Node],
             max_paths: int = 512, skip_loops: bool = False) -> tuple[set[Node], set[Node]]:
    """Abstractly execute from `start` until a node in `stop` (or an exit): which `targets` are visited?

    Returns (may, must): targets visited on some / on every explored path. Tests are decided from `env`;
    an undecidable test forks, so may != must exactly when the outcome depends on something that is not a role.
    Back edges are not followed twice (one iteration).
    """
    may: set[Node] = set()
    must: set[Node] | None = None
    work: list[tuple[Node, frozenset[int], frozenset[Node]]] = [(start, frozenset(), frozenset())]
    paths = 0
    while work:
        n, seen, hit = work.pop()
        paths += 1
        if paths > max_paths:
            raise AnalysisError(f"path explosion while interpreting {cfg.fn.qualname}")
        while True:
            if n in targets:
                hit = hit | {n}
            if n in stop or n.kind in ("exit", "raise_exit") or n.id in seen:
                break
            seen = seen | {n.id}
            if n.kind == "test":
                v = ev.value(n.ast, n, env)  # type: ignore[arg-type]
                if v is UNKNOWN:
                    succs = [s for s, l in n.succ if l in ("true", "false")]
                    for s in succs[1:]:
                        work.append((s, seen, hit))
                    n = succs[0]
                    continue
                label = "true" if v else "false"
                nxt = [s for s, l in n.succ if l == label]
                if not nxt:
                    break
                n = nxt[0]
                continue
            nxt = [s for s, l in n.succ if l != "exc"]
            if skip_loops and n.kind == "for" and n is not start:
                inner = cfg.loop_body(n)
                if not (inner & targets):
                    nxt = [s for s, l in n.succ if l == "done"]
            if not nxt:
                break
            for s in nxt[1:]:
                work.append((s, seen, hit))
            n = nxt[0]
        may |= hit
        must = set(hit) if must is None else (must & hit)
    return may, (must or set())


def paths(cfg: CFG, start: Node, ev: RoleEval, env: dict[str, Any], stop: set[Node], max_paths: int = 256,
          skip_loops: bool = False) -> list[list[Node]]:
    """All abstract executions from `start` under `env` as node sequences.

    Loops are unrolled at most once: the first visit of a loop head forks into "enter the body" and
    "zero iterations"; the second visit leaves the loop. Each path ends at a node in `stop` or an exit.
    """
    out: list[list[Node]] = []
    work: list[tuple[Node, tuple[Node, ...]]] = [(start, ())]
    while work:
        n, pref = work.pop()
        if len(out) + len(work) > max_paths:
            raise AnalysisError(f"path explosion while interpreting {cfg.fn.qualname}")
        path = list(pref)
        while True:
            visits = sum(1 for x in path if x is n)
            path.append(n)
            if n in stop or n.kind in ("exit", "raise_exit"):
                break
            is_loop_head = n.kind == "for" or (n.kind == "test" and isinstance(n.stmt, ast.While))
            if visits >= 1 and not is_loop_head:
                break  # irreducible revisit: give up on this path
            if visits >= 2:
                break
            if n.kind == "for":
                if visits == 1 or skip_loops:
                    nxt = [s for s, l in n.succ if l == "done"]
                else:
                    nxt = [s for s, l in n.succ if l == "iter"] + [s for s, l in n.succ if l == "done"]
            elif n.kind == "test":
                if is_loop_head and visits == 1:
                    nxt = [s for s, l in n.succ if l == "false"]
                else:
                    v = ev.value(n.ast, n, env)  # type: ignore[arg-type]
                    if v is UNKNOWN:
                        nxt = [s for s, l in n.succ if l in ("true", "false")]
                    else:
                        nxt = [s for s, l in n.succ if l == ("true" if v else "false")]
            elif n.kind == "stmt" and isinstance(n.ast, ast.Raise):
                nxt = [s for s, _ in n.succ][:1]
            else:
                nxt = [s for s, l in n.succ if l != "exc"]
            if not nxt:
                break
            for s in nxt[1:]:
                work.append((s, tuple(path)))
            n = nxt[0]
        out.append(path)
    return out


def specialise(t: Any, ev: RoleEval, env: dict[str, Any]) -> Any:
    """Partially evaluate a term under a role assignment: conditional expressions whose condition is decided are replaced by
    the branch taken (so `a if c else b` and the if/else statement form give the same term on every abstract path)."""
    if isinstance(t, tuple) and t and isinstance(t[0], str):
        if t[0] == "ifexp":
            v = ev.eval_term(t[1], env)
            if v is True:
                return specialise(t[2], ev, env)
            if v is False:
                return specialise(t[3], ev, env)
        return tuple(specialise(x, ev, env) for x in t)
    if isinstance(t, tuple):
        return tuple(specialise(x, ev, env) for x in t)
    return t
