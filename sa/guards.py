"""Exhaustive decisions for code that touches values only through comparisons.

A *role* is a quantity named by the specification (d = activation degree, n = number of rules,
t = threshold, count = rules triggered so far, ...). Expressions of the program are bound to roles
by their resolved origin (sym.Term), never by their spelling. For a region of a CFG whose tests only
compare roles, every weak order of the role values is enumerated and the region is interpreted
abstractly under each: which target statements execute is then a total function of the ordering and
is compared with the specification predicate. A test that consults anything that is not a role is
explored both ways and reported as non-deterministic.
"""

from __future__ import annotations

import ast
import itertools
from typing import Any, Callable, Iterable

from .cfg import CFG, Node
from .pm import AnalysisError, unparse
from .sym import Resolver, Term

UNKNOWN = object()


def weak_orders(names: list[str], fixed: dict[str, float] | None = None) -> Iterable[dict[str, int]]:
    """All weak orders of `names` as integer assignments (one representative per order).

    `fixed` gives known numeric values for some names (constants): orders contradicting them are skipped.
    """
    n = len(names)
    seen: set[tuple[int, ...]] = set()
    for combo in itertools.product(range(n), repeat=n):
        # canonical form: ranks must be dense 0..k
        ranks = sorted(set(combo))
        canon = tuple(ranks.index(c) for c in combo)
        if canon in seen:
            continue
        seen.add(canon)
        env = dict(zip(names, canon))
        if fixed:
            ok = True
            fx = [k for k in names if k in fixed]
            for a, b in itertools.combinations(fx, 2):
                if (fixed[a] < fixed[b]) != (env[a] < env[b]) or (fixed[a] == fixed[b]) != (env[a] == env[b]):
                    ok = False
                    break
            if not ok:
                continue
        yield env


class RoleEval:
    """Evaluates test expressions under an assignment of role values."""

    def __init__(self, resolver: Resolver, classify: Callable[[Term, ast.AST], str | None]):
        self.r = resolver
        self.classify = classify
        self.unknown_atoms: list[str] = []

    def role(self, e: ast.AST, node: Node) -> str | None:
        if isinstance(e, ast.Constant) and isinstance(e.value, (int, float)) and not isinstance(e.value, bool):
            return f"const:{float(e.value)}"
        t = self.r.term(e, node)
        return self.classify(t, e)

    def roles_in(self, e: ast.AST, node: Node) -> set[str]:
        out: set[str] = set()
        rl = self.role(e, node)
        if rl is not None:
            out.add(rl)
            return out
        for c in ast.iter_child_nodes(e):
            if isinstance(c, ast.expr):
                out |= self.roles_in(c, node)
        return out

    def value(self, e: ast.AST, node: Node, env: dict[str, Any]) -> Any:
        rl = self.role(e, node)
        if rl is not None:
            if rl not in env:
                raise AnalysisError(f"role {rl} has no value in the enumeration")
            return env[rl]
        if isinstance(e, ast.NamedExpr):
            return self.value(e.value, node, env)
        if isinstance(e, ast.BoolOp):
            vals = [self.value(v, node, env) for v in e.values]
            if isinstance(e.op, ast.And):
                if any(v is not UNKNOWN and not v for v in vals):
                    return False
                return UNKNOWN if any(v is UNKNOWN for v in vals) else True
            if any(v is not UNKNOWN and bool(v) for v in vals):
                return True
            return UNKNOWN if any(v is UNKNOWN for v in vals) else False
        if isinstance(e, ast.UnaryOp) and isinstance(e.op, ast.Not):
            v = self.value(e.operand, node, env)
            return UNKNOWN if v is UNKNOWN else (not v)
        if isinstance(e, ast.UnaryOp) and isinstance(e.op, ast.USub):
            v = self.value(e.operand, node, env)
            return UNKNOWN if v is UNKNOWN else ("neg", v)
        if isinstance(e, ast.Compare):
            vals = [self.value(x, node, env) for x in [e.left] + list(e.comparators)]
            if any(v is UNKNOWN for v in vals):
                self.unknown_atoms.append(unparse(e))
                return UNKNOWN
            res = True
            for op, a, b in zip(e.ops, vals, vals[1:]):
                if isinstance(op, ast.Lt):
                    r = a < b
                elif isinstance(op, ast.LtE):
                    r = a <= b
                elif isinstance(op, ast.Gt):
                    r = a > b
                elif isinstance(op, ast.GtE):
                    r = a >= b
                elif isinstance(op, ast.Eq):
                    r = a == b
                elif isinstance(op, ast.NotEq):
                    r = a != b
                else:
                    self.unknown_atoms.append(unparse(e))
                    return UNKNOWN
                res = res and r
            return res
        if isinstance(e, ast.Constant):
            return e.value
        self.unknown_atoms.append(unparse(e))
        return UNKNOWN


def simulate(cfg: CFG, start: Node, ev: RoleEval, env: dict[str, Any], targets: set[Node], stop: set[Node],
             max_paths: int = 256) -> tuple[set[Node], bool]:
    """Abstractly execute from `start` until a node in `stop` (or an exit): which `targets` are visited?

    Returns (visited targets, deterministic). Tests are decided from `env`; an undecidable test forks.
    Back edges are not followed twice (one iteration).
    """
    visited: set[Node] = set()
    deterministic = True
    work: list[tuple[Node, frozenset[int]]] = [(start, frozenset())]
    paths = 0
    while work:
        n, seen = work.pop()
        paths += 1
        if paths > max_paths:
            raise AnalysisError(f"path explosion while interpreting {cfg.fn.qualname}")
        while True:
            if n in targets:
                visited.add(n)
            if n in stop or n.kind in ("exit", "raise_exit") or n.id in seen:
                break
            seen = seen | {n.id}
            if n.kind == "test":
                v = ev.value(n.ast, n, env)  # type: ignore[arg-type]
                if v is UNKNOWN:
                    deterministic = False
                    succs = [s for s, l in n.succ if l in ("true", "false")]
                    for s in succs[1:]:
                        work.append((s, seen))
                    n = succs[0]
                    continue
                label = "true" if v else "false"
                nxt = [s for s, l in n.succ if l == label]
                if not nxt:
                    break
                n = nxt[0]
                continue
            nxt = [s for s, l in n.succ if l != "exc"]
            if not nxt:
                break
            if len(nxt) > 1:
                # for-heads etc.: follow the body edge only when asked through `stop`
                for s in nxt[1:]:
                    work.append((s, seen))
            n = nxt[0]
    return visited, deterministic
