"""Extraction of the FLL writer / reader tables (FllExporter, FllImporter, parameters()/configure() pairs)."""

from __future__ import annotations

import ast
from dataclasses import dataclass, field
from typing import Any

from .pm import AnalysisError, ClassInfo, FunctionInfo, Program, unparse
from .sym import Resolver, Term, path_of, show, walk


@dataclass
class ExportEntry:
    key: str
    attrs: list[str]  # attributes of the component printed under this key
    via: str | None  # helper applied: 'norm' | 'defuzzifier' | 'activation' | None
    guard: str | None  # attribute whose truthiness guards the line (elision), if any
    lineno: int


@dataclass
class ImportEntry:
    key: str
    attr: str
    conv: str  # 'raw' | 'boolean' | 'to_float' | 'range' | 'tnorm' | 'snorm' | 'defuzzifier' | 'activation' | 'term' | 'rule'
    lineno: int
    how: str = "assign"  # assign | append


def class_of_param(p: Program, fn: FunctionInfo, name: str) -> str | None:
    for prm in fn.params:
        if prm.name == name and prm.annotation is not None:
            for x in ast.walk(prm.annotation):
                d = x.id if isinstance(x, ast.Name) else (x.value if isinstance(x, ast.Constant) and isinstance(x.value, str) else None)
                if d and d in p.classes:
                    return d
    return None


def exporter_table(p: Program, method: str) -> tuple[FunctionInfo, str, list[ExportEntry]]:
    """format(key, value) calls of FllExporter.<method>: returns (fn, component class name, entries)."""
    fn = p.func(f"FllExporter.{method}")
    r = Resolver(p, fn)
    cfg = r.cfg
    comp = fn.params[1].name
    cname = class_of_param(p, fn, comp) or "?"
    out: list[ExportEntry] = []
    for n, c in cfg.all_calls():
        t = r.term(c, n)
        if not (t[0] == "call" and t[1] == ("attr", ("param", "self"), "format")):
            continue
        args = list(t[2])
        kw = dict(t[3])
        key_t = args[0] if args else kw.get("key", ("const", None))
        val_t = args[1] if len(args) > 1 else kw.get("value", ("const", None))
        if key_t[0] == "const" and isinstance(key_t[1], str):
            key = key_t[1]
        elif key_t[0] == "call" and key_t[1][0] == "global" and key_t[1][1].endswith("Operation.class_name"):
            key = "<class>"
        else:
            continue
        attrs: list[str] = []
        via = None
        vals = list(val_t[1]) if val_t[0] == "tuple" else [val_t]
        for v in vals:
            if v[0] == "call" and v[1][0] == "attr" and v[1][1] == ("param", "self") and v[2]:
                via = v[1][2]
                v = v[2][0]
            pth = path_of(v)
            if pth and pth.startswith(comp + "."):
                attrs.append(pth[len(comp) + 1:])
        guard = None
        for g, pol, gn in cfg.must_guards(n):
            gp = path_of(r.term(g, gn))
            if pol and gp and gp.startswith(comp + "."):
                guard = gp[len(comp) + 1:]
        out.append(ExportEntry(key, attrs, via, guard, n.lineno))
    return fn, cname, out


def importer_table(p: Program, method: str, obj_ctor: str, extra_keys: set[str] | None = None) -> tuple[FunctionInfo, list[ImportEntry], set[str]]:
    """What FllImporter.<method> does with each `key: value` line, found by interpretation (sa/absexec.py), not by reading the shape of the
    code: the method is run on a block made of the header line alone and then of the header plus one `key: <V>` line, for every candidate key
    (the string constants of the importer class, plus `extra_keys`), with the value parsers (`boolean`, `range`, `tnorm`, ..., `to_float`,
    `Rule.create`) replaced by recorders. An attribute of the component that differs between the two runs is what the key assigns
    (or, for a list, appends to), and the recorder that produced the value is the conversion.

    Returns (fn, entries, keys the method accepts).
    """
    from .absexec import AbsExec, Internal, MObj, Opaque, Raised, Unknown, _Return

    fn = p.func(f"FllImporter.{method}")
    imp = p.cls("FllImporter")
    node = fn.node
    params = [a.arg for a in node.args.args]
    parsers = ("boolean", "range", "tnorm", "snorm", "defuzzifier", "activation", "term", "rule")
    consts = {c.value for m in imp.methods.values() for c in ast.walk(m.node) if isinstance(c, ast.Constant) and isinstance(c.value, str)
              and c.value and " " not in c.value and ":" not in c.value and len(c.value) < 40}
    keys = sorted(consts | set(extra_keys or ()))
    header = obj_ctor
    VALUE = "<V>"

    def parsed(conv: str, arg: object) -> MObj:
        return MObj("Parsed", {"conv": conv, "arg": arg, "__bool__": True})

    def run(lines: list[str], component: str | None = None) -> tuple[dict | None, str | None]:
        created: list[MObj] = []

        def ctor(cls: str):  # type: ignore[no-untyped-def]
            def construct(ex_, e, args, kw):
                o = MObj(cls, {"name": "", "description": "", "terms": [], "rules": [], "input_variables": [], "output_variables": [], "rule_blocks": [],
                               "__class__": MObj("class", {"__name__": cls})})
                created.append(o)
                return o
            return construct

        hooks = {f"method:{nm}": (lambda ex_, e, recv, args, kw, nm=nm: parsed(nm, args[0] if args else None)) for nm in parsers}
        if method == "_process":  # the components of an engine are read by the methods of their own
            for nm in ("input_variable", "output_variable", "rule_block"):
                hooks[f"method:{nm}"] = lambda ex_, e, recv, args, kw, nm=nm: parsed(nm, args[0] if args else None)
        hooks["method:strip_comments"] = lambda ex_, e, recv, args, kw: args[0]
        hooks["method:as_identifier"] = lambda ex_, e, recv, args, kw: args[0]
        hooks["method:create"] = lambda ex_, e, recv, args, kw: parsed("rule", args[0] if args else None)
        ex = AbsExec(fn.qualname, hooks, helpers={k: v for k, v in imp.methods.items() if k not in parsers and k != method and k not in ("engine", "from_string")})
        ex.concrete_strings = True
        ex.globals = {"InputVariable": ctor("InputVariable"), "OutputVariable": ctor("OutputVariable"), "RuleBlock": ctor("RuleBlock"), "Engine": ctor("Engine"),
                      "Op": Opaque("Op"), "Rule": Opaque("Rule"), "to_float": lambda ex_, e, args, kw: parsed("to_float", args[0]), "nan": float("nan"), "inf": float("inf")}
        me = MObj("FllImporter", {"separator": "\n"})
        if method == "_process":
            target = ctor("Engine")(None, None, [], {})
            env = {params[0]: me, params[1]: component or obj_ctor, params[2]: list(lines), params[3]: target}
        else:
            env = {params[0]: me, params[1]: "\n".join(lines), **({params[2]: None} if len(params) > 2 else {})}
        try:
            try:
                ex.block(list(node.body), env)
            except _Return:
                pass
        except Raised as r_:
            return None, r_.cls
        except (Internal, Unknown):
            return None, "?"
        objs = [o for o in created if o.cls == obj_ctor]
        if not objs:
            return None, "?"
        return {k: (list(v) if isinstance(v, list) else v) for k, v in objs[0].fields.items()}, None

    base, err = run([f"{header}: v"])
    if base is None:
        raise AnalysisError(f"FllImporter.{method}: a block made of its header line alone cannot be interpreted ({err})")
    base0, _ = run([f"{header}: w"])
    entries: list[ImportEntry] = []
    tested: set[str] = set()
    line = node.lineno
    if base0 is not None:
        for a in base:
            if base[a] == "v" and base0.get(a) == "w":
                entries.append(ImportEntry(header, a, "raw", line))
                tested.add(header)
    for k in keys:
        if k == header:
            continue
        got, err = run([f"{header}: v", f"  {k}: {VALUE}"])
        if got is None:
            if err not in ("SyntaxError",):
                tested.add(k) if err not in ("?",) else None
            continue
        tested.add(k)
        for a, v in got.items():
            if a.startswith("__") or v == base.get(a) or (isinstance(v, MObj) and isinstance(base.get(a), MObj) and v.cls == base[a].cls == "class"):
                continue
            if isinstance(v, list):
                new_items = v[len(base.get(a) or []):] if isinstance(base.get(a), list) else v
                for it in new_items:
                    entries.append(ImportEntry(k, a, it.fields["conv"] if isinstance(it, MObj) and it.cls == "Parsed" else "raw", line, "append"))
                continue
            conv = v.fields["conv"] if isinstance(v, MObj) and v.cls == "Parsed" else ("raw" if v == VALUE else "other")
            entries.append(ImportEntry(k, a, conv, line))
    if method == "_process":
        for comp in ("InputVariable", "OutputVariable", "RuleBlock"):
            got, err = run([f"{comp}: v"], component=comp)
            if got is None:
                continue
            tested.add(comp)
            for a, v in got.items():
                if isinstance(v, list) and len(v) > len(base.get(a) or []):
                    for it in v[len(base.get(a) or []):]:
                        entries.append(ImportEntry(comp, a, it.fields["conv"] if isinstance(it, MObj) and it.cls == "Parsed" else "raw", line, "append"))
    return fn, entries, tested


# --------------------------------------------------------------------------------------------- parameters()/configure()
@dataclass
class ParamTable:
    cls: str
    printed: list[str] | None  # ordered attributes printed by parameters()
    configured: list[tuple[str, str]] | None  # ordered (attribute, conversion) assigned by configure()
    required: int | None  # n in self._parse(n, ...)
    height_flag: bool | None
    ctor: list[str]
    special: str | None = None
    lineno: int = 0
    printed_conv: list[str] = field(default_factory=list)


def own_or_inherited(c: ClassInfo, name: str) -> FunctionInfo | None:
    return c.lookup(name)


def printed_attrs(p: Program, c: ClassInfo) -> tuple[list[str] | None, list[str], FunctionInfo | None]:
    fn = c.lookup("parameters")
    if fn is None:
        return None, [], None
    r = Resolver(p, fn)
    rets = [r.term(n.ast.value, n) for n in r.cfg.stmt_nodes() if isinstance(n.ast, ast.Return) and n.ast.value is not None]
    if not rets:
        return None, [], fn
    attrs: list[str] = []
    convs: list[str] = []
    seen = set()
    for t in rets:
        for s in _ordered_attr_reads(t):
            name, how = s
            if name not in seen:
                seen.add(name)
                attrs.append(name)
                convs.append(how)
    return attrs, convs, fn


def _ordered_attr_reads(t: Term) -> list[tuple[str, str]]:
    """self.<attr> reads in left-to-right order, with how each is printed (value | name | str)."""
    out: list[tuple[str, str]] = []

    def rec(x: Any, how: str) -> None:
        if not (isinstance(x, tuple) and x and isinstance(x[0], str)):
            if isinstance(x, (tuple, list)):
                for y in x:
                    rec(y, how)
            return
        if x[0] == "attr" and x[1] == ("param", "self"):
            out.append((x[2], how))
            return
        if x[0] == "attr" and x[1][0] == "attr" and x[1][1] == ("param", "self") and x[2] in ("value", "name"):
            out.append((x[1][2], x[2]))
            return
        if x[0] == "call" and x[1][0] == "attr" and x[1][1][0] == "attr" and x[1][1][1] == ("param", "self"):
            out.append((x[1][1][2], x[1][2] + "()"))
            for y in x[2]:
                rec(y, how)
            return
        if x[0] == "cmp":
            return  # comparisons (elision guards) do not print
        if x[0] == "ifexp":
            rec(x[2], how)
            rec(x[3], how)
            return
        for y in x[1:]:
            rec(y, how)

    rec(t, "str")
    return out


def configured_attrs(p: Program, c: ClassInfo) -> tuple[list[tuple[str, str]] | None, int | None, bool | None, FunctionInfo | None]:
    fn = c.lookup("configure")
    if fn is None:
        return None, None, None, None
    r = Resolver(p, fn)
    cfg = r.cfg
    out: list[tuple[int, str, str]] = []
    required = None
    height_flag = None
    for n in cfg.stmt_nodes():
        if n.kind != "stmt" or not isinstance(n.ast, (ast.Assign, ast.AnnAssign)):
            continue
        targets = n.ast.targets if isinstance(n.ast, ast.Assign) else [n.ast.target]
        val = r.term(n.ast.value, n) if n.ast.value is not None else ("const", None)
        for tg in targets:
            elts = tg.elts if isinstance(tg, (ast.Tuple, ast.List)) else [tg]
            for i, e in enumerate(elts):
                if isinstance(e, ast.Attribute) and isinstance(e.value, ast.Name) and e.value.id == "self":
                    conv, idx = _conv_and_index(val, i if len(elts) > 1 else None)
                    out.append((idx if idx is not None else i, e.attr, conv))
        for s in walk(val):
            if s[0] == "call" and s[1] == ("attr", ("param", "self"), "_parse") and s[2]:
                if s[2][0][0] == "const":
                    required = s[2][0][1]
                kw = dict(s[3])
                height_flag = not (kw.get("height") == ("const", False))
    if not out:
        return [], required, height_flag, fn
    out.sort(key=lambda x: x[0])
    return [(a, cv) for _, a, cv in out], required, height_flag, fn


def _conv_and_index(val: Term, pos: int | None) -> tuple[str, int | None]:
    """Conversion applied and the position of the parameter string it consumes."""
    t = val
    conv = "raw"
    idx = pos
    if t[0] == "call" and t[1][0] == "global":
        name = t[1][1].split(".")[-1]
        if name in ("int", "float", "to_float"):
            conv = name
            t = t[2][0] if t[2] else t
        elif t[2] and len(t[2]) == 1:
            conv = name + "()"  # Enum(value)
            t = t[2][0]
    elif t[0] == "sub" and t[1][0] == "global":
        conv = t[1][1].split(".")[-1] + "[]"  # Enum[name]
        t = t[2]
    if t[0] == "sub" and t[2][0] == "const" and isinstance(t[2][1], int) and idx is None:
        idx = t[2][1]
    if t[0] == "unpack" and t[2]:
        idx = t[2][0]
    if t[0] == "call" and t[1] == ("attr", ("param", "self"), "_parse"):
        conv = "_parse"
    if t[0] == "sub" and t[1][0] == "call" and t[1][1] == ("attr", ("param", "self"), "_parse"):
        conv = "_parse"
    return conv, idx


def ctor_fields(p: Program, c: ClassInfo) -> list[str]:
    init = c.lookup("__init__")
    if init is None:
        return []
    return [x.name for x in init.params if x.name != "self"]


def ctor_defaults(p: Program, c: ClassInfo) -> dict[str, ast.AST | None]:
    init = c.lookup("__init__")
    if init is None:
        return {}
    return {x.name: x.default for x in init.params if x.name != "self"}


def ctor_annotations(p: Program, c: ClassInfo) -> dict[str, str]:
    init = c.lookup("__init__")
    if init is None:
        return {}
    return {x.name: (unparse(x.annotation) if x.annotation is not None else "") for x in init.params if x.name != "self"}
