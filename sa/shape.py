"""Shape lattice for the numpy kernels on the processing path (the fourth lattice of DESIGN.md 2.6).

A shape is a tuple of dimensions; a dimension is 1 or a symbol: "n" (rows of a batch), "r" (sample points of an integral
defuzzifier), or any other name. TOP means "not modelled" (never an alarm); a `ShapeError` is a definite broadcasting or axis
error between two *different* symbols (a batch dimension meeting the sampling dimension), which numpy would either reject or -
worse, when n happens to equal r - silently mis-align.

The evaluator works on resolved terms (sa.sym), like the extended-sign evaluator of sa.absint.
"""

from __future__ import annotations

from typing import Any, Callable

from .sym import Term, show

TOP = ("?",)


class ShapeError(Exception):
    pass


def broadcast(*shapes: tuple) -> tuple:
    shapes = tuple(s for s in shapes if s is not None)
    if any(s == TOP or not isinstance(s, tuple) for s in shapes):
        return TOP
    nd = max((len(s) for s in shapes), default=0)
    out = []
    for i in range(1, nd + 1):
        dims = [s[-i] for s in shapes if len(s) >= i]
        d: Any = 1
        for x in dims:
            if x == 1:
                continue
            if d == 1:
                d = x
            elif d != x:
                raise ShapeError(f"operands of shapes {' and '.join(fmt(s) for s in shapes)} do not broadcast: dimension `{d}` meets dimension `{x}`")
        out.append(d)
    return tuple(reversed(out))


def fmt(s: tuple) -> str:
    if s == TOP:
        return "?"
    return "(" + ", ".join(str(d) for d in s) + ("," if len(s) == 1 else "") + ")"


ELEMENTWISE = {
    "where", "exp", "sqrt", "abs", "absolute", "fabs", "square", "power", "float_power", "log", "log1p", "log10", "cos", "sin", "tan", "arccos", "arcsin",
    "arctan", "arctan2", "cosh", "sinh", "tanh", "maximum", "minimum", "fmax", "fmin", "isnan", "isfinite", "isinf", "logical_and", "logical_or",
    "logical_not", "logical_xor", "nan_to_num", "clip", "sign", "negative", "positive", "add", "subtract", "multiply", "divide", "true_divide", "remainder",
    "mod", "fmod", "floor", "ceil", "round", "around", "rint", "greater", "greater_equal", "less", "less_equal", "equal", "not_equal", "isclose", "copysign",
    "hypot", "reciprocal", "expm1", "cbrt", "heaviside", "trunc",
}
SAME_SHAPE_1 = {"full_like", "zeros_like", "ones_like", "empty_like", "asarray", "array", "asanyarray", "copy", "float64", "interp", "cumsum", "nancumsum",
                "cumprod", "nancumprod", "sort", "ascontiguousarray"}
REDUCERS = {"sum", "nansum", "max", "nanmax", "amax", "min", "nanmin", "amin", "mean", "nanmean", "median", "nanmedian", "prod", "nanprod", "argmax", "argmin",
            "nanargmax", "nanargmin", "any", "all", "std", "var"}
IDENTITY_GLOBALS = {"fuzzylite.library.scalar", "fuzzylite.library.array", "fuzzylite.library.to_float", "float"}


class ShapeOf:
    """The value of `a.shape` / `np.shape(a)`: usable as the target of a reshape."""

    def __init__(self, shape: tuple):
        self.shape = shape


class SizeOf:
    """The value of `a.size` / `np.size(a)`: the number of elements - as the shape argument of a constructor it yields a flat array."""

    def __init__(self, shape: tuple):
        self.shape = shape


class ShapeEval:
    def __init__(self, env: Callable[[Term], tuple | None], call: Callable[[Term, "ShapeEval"], tuple | None] | None = None,
                 protected: frozenset = frozenset()):
        self.env = env
        self.call_hook = call
        self.unknown: list[str] = []
        # dimensions of the operands of an elementwise kernel: element [i, j] of the result may depend on element [i, j] of an operand only, so
        # such a dimension is never reduced over, indexed away or concatenated along
        self.protected = protected

    def guard(self, d: Any, t: Term, how: str) -> None:
        if d in self.protected:
            raise ShapeError(f"`{show(t)[:70]}` {how} the dimension `{d}` of an operand: the elements of different rows / sample points are mixed "
                             "(an elementwise kernel may only combine elements at the same position)")

    def seq(self, t: Term) -> list | None:
        """The shapes of the members of a sequence-valued term: a tuple / list display, or np.broadcast_arrays(...)."""
        if t[0] in ("tuple", "list"):
            return [self.ev(x) for x in t[1]]
        if t[0] == "call" and t[1] == ("global", "numpy.broadcast_arrays"):
            b = broadcast(*[self.ev(a) for a in t[2]])
            return [b for _ in t[2]]
        if t[0] == "call" and t[1][0] == "global" and t[1][1] in ("tuple", "list") and len(t[2]) == 1:
            return self.seq(t[2][0])
        return None

    def top(self, t: Term) -> tuple:
        self.unknown.append(show(t)[:60])
        return TOP

    def ev(self, t: Term) -> tuple:
        v = self.env(t)
        if v is not None:
            return v
        k = t[0]
        if k == "const":
            return () if isinstance(t[1], (int, float, bool)) else self.top(t)
        if k == "global":
            if t[1].split(".")[-1] in ("nan", "inf", "pi", "e"):
                return ()
            return self.top(t)
        if k in ("binop",):
            return broadcast(self.ev(t[2]), self.ev(t[3]))
        if k == "unop":
            return self.ev(t[2])
        if k == "cmp":
            return broadcast(*[self.ev(x) for x in t[2]])
        if k == "bool":
            return broadcast(*[self.ev(x) for x in t[2]])
        if k == "ifexp":
            a, b = self.ev(t[2]), self.ev(t[3])
            return a if a == b else TOP
        if k == "phi":
            alts = [a for a in t[1] if a[0] != "carried"]
            shapes = {self.ev(a) for a in alts}
            # a loop accumulator: iterate to a fixed point over the alternatives that mention the carried value
            if len(shapes) == 1:
                return next(iter(shapes))
            shapes.discard(TOP)
            try:
                return broadcast(*shapes) if shapes else TOP
            except ShapeError:
                return TOP
        if k == "carried":
            return ()  # the seed of the accumulation is joined in by the enclosing phi
        if k == "attr":
            if t[2] == "shape":
                s = self.ev(t[1])
                return s if s == TOP else ShapeOf(s)  # type: ignore[return-value]
            if t[2] == "T":
                s = self.ev(t[1])
                return s if s == TOP else tuple(reversed(s))
            if t[2] == "size":
                s = self.ev(t[1])
                return s if s == TOP else SizeOf(s)  # type: ignore[return-value]
            return self.top(t)
        if k == "sub":
            members = self.seq(t[1])
            if members is not None and t[2][0] == "const" and isinstance(t[2][1], int) and -len(members) <= t[2][1] < len(members):
                return members[t[2][1]]
            return self.index(self.ev(t[1]), t[2], t)
        if k == "call":
            return self.call(t)
        if k in ("tuple", "list"):
            return self.top(t)
        return self.top(t)

    # ------------------------------------------------------------------ indexing
    def index(self, s: tuple, idx: Term, t: Term) -> tuple:
        if s == TOP:
            return TOP
        items = list(idx[1]) if idx[0] == "tuple" else [idx]
        out: list[Any] = []
        dims = list(s)
        for it in items:
            if not dims:
                return self.top(t)
            d = dims.pop(0)
            if it[0] == "slice":
                out.append(d)
            elif it[0] == "list" and len(it[1]) == 1:
                out.append(1)
            elif it[0] == "const" and isinstance(it[1], int) or (it[0] == "unop" and it[1] == "-"):
                self.guard(d, t, "picks one entry along")  # an integer index drops the dimension
            elif it[0] == "const" and it[1] is None:
                out.append(1)
                dims.insert(0, d)
            else:
                ishape = self.ev(it)
                if ishape == TOP:
                    return self.top(t)
                if ishape == s:  # boolean mask of the whole array
                    return ("k",)
                out += list(ishape)
        return tuple(out + dims)

    # ------------------------------------------------------------------ calls
    def axis_of(self, kw: dict, args: tuple, pos: int) -> Any:
        a = kw.get("axis", args[pos] if len(args) > pos else None)
        if a is None:
            return None
        if a[0] == "const":
            return a[1]
        if a[0] == "unop" and a[1] == "-" and a[2][0] == "const":
            return -a[2][1]
        return "?"

    def reduce(self, s: tuple, axis: Any, keepdims: bool, t: Term) -> tuple:
        if s == TOP:
            return TOP
        if axis is None:
            for d in s:
                self.guard(d, t, "reduces over")
            return tuple(1 for _ in s) if keepdims else ()
        if axis == "?" or not isinstance(axis, int):
            return self.top(t)
        if not -len(s) <= axis < len(s):
            raise ShapeError(f"`{show(t)[:60]}` reduces along axis {axis} of an array of shape {fmt(s)}")
        i = axis % len(s)
        self.guard(s[i], t, "reduces over")
        return tuple((1 if j == i else d) for j, d in enumerate(s) if keepdims or j != i)

    ragged: Callable[[Term], bool] | None = None  # element terms whose shape differs from one element of a Python list to the next

    def call(self, t: Term) -> tuple:
        if self.ragged is not None and t[1][0] == "global" and t[1][1].startswith("numpy.") and t[2] and t[2][0][0] in ("mapped", "list", "tuple"):
            from .sym import walk

            if any(self.ragged(x) for x in walk(t[2][0])):
                raise ShapeError(f"`{show(t)[:70]}` stacks per-rule values into one array: their shapes differ when some rules depend on the batch "
                                 "(shape (n,)) and others do not (shape ()), which numpy rejects - while adding them one by one broadcasts")
        if self.call_hook is not None:
            v = self.call_hook(t, self)
            if v is not None:
                return v
        f, args, kwargs = t[1], t[2], dict(t[3])
        keep = kwargs.get("keepdims") == ("const", True)
        if f[0] == "global":
            name = f[1]
            short = name.split(".")[-1]
            if name in IDENTITY_GLOBALS and args:
                return self.ev(args[0])
            if name in ("abs", "min", "max", "pow", "round", "int") or name.startswith("math."):
                shapes = [self.ev(a) for a in args]
                return () if all(s == () for s in shapes) else self.top(t)  # Python's scalar functions: a single number in, a single number out
            if name.startswith("numpy."):
                if short in ELEMENTWISE:
                    arr = [a for a in args]
                    if short == "interp":
                        arr = arr[:1]
                    res = broadcast(*([self.ev(a) for a in arr] + ([self.ev(kwargs["where"])] if "where" in kwargs else [])))
                    if "out" in kwargs and not (kwargs["out"][0] == "const" and kwargs["out"][1] is None):
                        buf = self.ev(kwargs["out"])
                        if buf != TOP and res != TOP and buf != res:
                            raise ShapeError(f"`{show(t)[:70]}` writes a result of shape {fmt(res)} into an `out=` buffer of shape {fmt(buf)}: numpy rejects it "
                                             "(non-broadcastable output operand) - the buffer must have the broadcast shape of the operands, not the shape of one of them")
                        return buf
                    return res
                if short in ("ones", "zeros", "empty", "full") and args:
                    first = self.ev(args[0]) if args[0][0] in ("attr", "call") else None
                    if isinstance(first, ShapeOf):
                        return first.shape
                    if isinstance(first, SizeOf):
                        if len(first.shape) >= 2:
                            raise ShapeError(f"`{show(t)[:70]}` builds a flat array of `size` elements: an operand with two or more dimensions comes back flattened")
                        return first.shape if first.shape else (1,)
                    return self.top(t)
                if short == "size" and len(args) == 1:
                    s_ = self.ev(args[0])
                    return s_ if s_ == TOP else SizeOf(s_)  # type: ignore[return-value]
                if short in SAME_SHAPE_1 and args:
                    return self.ev(args[0])
                if short == "atleast_2d" and args:
                    s = self.ev(args[0])
                    return s if s == TOP else ((1, 1) if len(s) == 0 else ((1,) + s if len(s) == 1 else s))
                if short == "atleast_1d" and args:
                    s = self.ev(args[0])
                    return s if s == TOP else ((1,) if len(s) == 0 else s)
                if short == "squeeze" and args:
                    s = self.ev(args[0])
                    return s if s == TOP else tuple(d for d in s if d != 1)
                if short == "transpose" and len(args) == 1:
                    s = self.ev(args[0])
                    return s if s == TOP else tuple(reversed(s))
                if short in REDUCERS and args:
                    return self.reduce(self.ev(args[0]), self.axis_of(kwargs, args, 1), keep, t)
                if short == "shape" and len(args) == 1:
                    s = self.ev(args[0])
                    return s if s == TOP else ShapeOf(s)  # type: ignore[return-value]
                if short == "reshape" and len(args) == 2:
                    self.ev(args[0])
                    target = self.ev(args[1]) if args[1][0] in ("attr", "call") else None
                    return target.shape if isinstance(target, ShapeOf) else self.top(t)
                if short in ("stack", "vstack", "hstack", "concatenate", "column_stack", "dstack", "row_stack") and args:
                    members = self.seq(args[0])
                    if members is None or any(m == TOP or isinstance(m, ShapeOf) for m in members):
                        return self.top(t)
                    return self.join(short, members, self.axis_of(kwargs, args, 1), t)
                if short == "take" and args:
                    return ()
            return self.top(t)
        if f[0] == "attr":
            recv, meth = f[1], f[2]
            if meth in ("astype", "copy", "view", "round", "clip", "cumsum", "conj", "__abs__"):
                return self.ev(recv)
            if meth == "squeeze":
                s = self.ev(recv)
                return s if s == TOP else tuple(d for d in s if d != 1)
            if meth == "transpose" and not args:
                s = self.ev(recv)
                return s if s == TOP else tuple(reversed(s))
            if meth == "reshape" and len(args) == 1:
                self.ev(recv)  # whatever is wrong inside is still wrong after the reshape
                target = self.ev(args[0]) if args[0][0] in ("attr", "call") else None
                return target.shape if isinstance(target, ShapeOf) else self.top(t)
            if meth in ("flatten", "ravel"):
                for d in (self.ev(recv) if self.protected else ()):
                    if d != "?":
                        self.guard(d, t, "flattens")
                return ("k",)
            if meth == "item":
                return ()
            if meth in REDUCERS:
                return self.reduce(self.ev(recv), self.axis_of(kwargs, args, 0), keep, t)
        return self.top(t)


def _merge(self: ShapeEval, dims: list, t: Term) -> Any:
    """The dimension that results from laying arrays end to end along it."""
    for d in dims:
        self.guard(d, t, "lays arrays end to end along")
    if all(isinstance(d, int) for d in dims):
        return sum(dims) if sum(dims) != 1 else 1
    return "+".join(str(d) for d in dims)


def _join(self: ShapeEval, kind: str, members: list, axis: Any, t: Term) -> tuple:
    if not members:
        return self.top(t)
    if kind == "stack":
        if len(set(members)) != 1:
            raise ShapeError(f"`{show(t)[:70]}` stacks arrays of different shapes {' and '.join(fmt(m) for m in members)} (numpy raises; nothing is broadcast)")
        s = members[0]
        a = 0 if axis is None else axis
        if not isinstance(a, int) or not -len(s) - 1 <= a <= len(s):
            return self.top(t)
        a = a % (len(s) + 1)
        return s[:a] + (len(members),) + s[a:]
    if kind in ("vstack", "row_stack"):
        members = [(1, 1) if len(m) == 0 else ((1,) + m if len(m) == 1 else m) for m in members]
        axis = 0
    elif kind == "hstack":
        members = [(1,) if len(m) == 0 else m for m in members]
        axis = 0 if len(members[0]) == 1 else 1
    elif kind == "column_stack":
        members = [(1, 1) if len(m) == 0 else (m + (1,) if len(m) == 1 else m) for m in members]
        axis = 1
    elif kind == "dstack":
        return self.top(t)
    else:
        axis = 0 if axis is None else axis
    if not isinstance(axis, int) or len({len(m) for m in members}) != 1 or not -len(members[0]) <= axis < len(members[0]):
        return self.top(t)
    axis = axis % len(members[0])
    out = []
    for j in range(len(members[0])):
        dims = [m[j] for m in members]
        if j == axis:
            out.append(_merge(self, dims, t))
        elif len(set(dims)) != 1:
            raise ShapeError(f"`{show(t)[:70]}` joins arrays of shapes {' and '.join(fmt(m) for m in members)}, which differ off the joining axis")
        else:
            out.append(dims[0])
    return tuple(out)


ShapeEval.join = _join  # type: ignore[attr-defined]
