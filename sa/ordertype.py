"""Order-type abstract interpretation of the piecewise membership kernels.

A piecewise kernel looks at its argument and its parameters almost only through comparisons and differences
(`x <= s`, `(x - s) / (e - s)`, `x <= 0.5 * (s + e)`). For such code the *order type* of (x, parameters) - which of
them coincide, which lie below which, which are infinite, and on which side of every compared linear form (a midpoint,
a centre +- half a width) x lies - decides every comparison and the sign of every difference. The set of order types is
finite, so the kernel can be interpreted once per order type:

  * comparisons between linear forms of the atoms evaluate to a definite truth value, so `np.where` selects one branch;
  * a translation-invariant linear form evaluates to its exact sign class (neg / zero / pos); everything else falls back
    to the extended-sign domain of sa.absint (sound, less precise).

Order types are enumerated through witnesses on a small rational grid, which certifies that every order type that is
interpreted is feasible (the witness is a concrete member). The interpretation is over real arithmetic; on the witness
itself (small dyadic rationals) floating-point arithmetic is exact for + - * and class-preserving for /, so a definite
verdict at an order type is a verdict about at least that concrete input.
"""

from __future__ import annotations

import ast
import itertools
from fractions import Fraction
from typing import Any, Callable, Iterable

from .absint import (FINITE, IDENTITY_ATTRS, IDENTITY_CALLS, IDENTITY_METHODS, NAN, NEG, NINF, PINF, POS, ZERO, Abs, Evaluator, is_bool, return_term,
                     show_abs)
from .pm import AnalysisError, ClassInfo, Program
from .sym import Term, show, walk

SELF = ("param", "self")
INF = float("inf")
Lin = tuple  # (frozenset of (atom, Fraction) pairs as dict, Fraction const) - represented as (dict, Fraction)


# --------------------------------------------------------------------------------------------- flattening
def flatten(p: Program, t: Term, depth: int = 3) -> Term:
    """Inline nested term constructions: Cls(a=.., b=..).membership(arg) -> Cls.membership's return term on those arguments."""
    if not (isinstance(t, tuple) and t and isinstance(t[0], str)):
        if isinstance(t, tuple):
            return tuple(flatten(p, x, depth) for x in t)
        return t
    if t[0] == "call" and t[1][0] == "attr" and t[1][2] in ("membership",) and t[1][1][0] == "call" and t[1][1][1][0] == "global" and depth > 0:
        ctor = t[1][1]
        cname = ctor[1][1].split(".")[-1]
        cls = p.classes.get(cname)
        if cls is not None and cls.lookup("membership") is not None and len(t[2]) == 1:
            fn = cls.lookup("membership")
            init = cls.lookup("__init__")
            names = [x.name for x in init.params if x.name != "self"]
            bound: dict[str, Term] = {}
            for nm, a in zip(names, ctor[2]):
                bound[nm] = flatten(p, a, depth)
            for nm, a in ctor[3]:
                bound[nm] = flatten(p, a, depth)
            for prm in init.params:
                if prm.name not in bound and prm.name != "self" and prm.default is not None:
                    d = prm.default
                    if isinstance(d, ast.Constant):
                        bound[prm.name] = ("const", d.value)
                    elif isinstance(d, ast.Name) and d.id == "nan":
                        bound[prm.name] = ("global", "math.nan")
            arg = flatten(p, t[2][0], depth)
            xname = fn.params[1].name
            body = return_term(p, cls, "membership")

            def subst(u: Any) -> Any:
                if isinstance(u, tuple) and u and isinstance(u[0], str):
                    if u == ("param", xname):
                        return arg
                    if u[0] == "attr" and u[1] == SELF and u[2] in bound:
                        return bound[u[2]]
                    return tuple(subst(x) for x in u)
                if isinstance(u, tuple):
                    return tuple(subst(x) for x in u)
                return u

            return flatten(p, subst(body), depth - 1)
    # static helpers of the library that are one expression (Op.is_close -> np.isclose(a, b, atol=settings.atol, ...))
    if t[0] == "call" and t[1][0] == "global" and t[1][1].startswith("fuzzylite.operation.Operation.") and depth > 0:
        hname = t[1][1].split(".")[-1]
        try:
            hf = p.func("Operation." + hname)
        except AnalysisError:
            hf = None
        if hf is not None and hf.is_static and hname not in ("scalar", "array"):
            try:
                body = return_term(p, p.cls("Operation"), hname)
            except AnalysisError:
                body = None
            names = [x.name for x in hf.params]
            if body is not None and len(t[2]) <= len(names) and not any(q[0] in ("opaque", "phi") for q in walk(body)):
                bound = {("param", n): flatten(p, a, depth) for n, a in zip(names, t[2])}
                bound.update({("param", k): flatten(p, v, depth) for k, v in t[3]})
                if len(bound) == len(names):
                    def subst2(u: Any) -> Any:
                        if isinstance(u, tuple) and u and isinstance(u[0], str):
                            return bound[u] if u in bound else tuple(subst2(x) for x in u)
                        return tuple(subst2(x) for x in u) if isinstance(u, tuple) else u

                    return flatten(p, subst2(body), depth - 1)
    # np.isclose(a, b, atol, rtol): |a - b| <= atol + rtol*|b| with the library's default tolerances
    if t[0] == "call" and t[1] == ("global", "numpy.isclose") and len(t[2]) >= 2:
        kw = dict(t[3])
        a, b = flatten(p, t[2][0], depth), flatten(p, t[2][1], depth)
        rtol = _tolerance(p, kw.get("rtol", t[2][2] if len(t[2]) > 2 else ("const", 1e-05)))
        atol = _tolerance(p, kw.get("atol", t[2][3] if len(t[2]) > 3 else ("const", 1e-08)))
        if rtol is not None and atol is not None:
            d = ("binop", "-", a, b)
            if rtol == 0:
                return ("bool", "and", (("cmp", ("<=",), (d, ("const", atol))), ("cmp", ("<=",), (("unop", "-", d), ("const", atol)))))
            bound_ = ("binop", "+", ("const", atol), ("binop", "*", ("const", rtol), ("call", ("global", "numpy.abs"), (b,), ())))
            return ("cmp", ("<=",), (("call", ("global", "numpy.abs"), (d,), ()), bound_))
    return tuple(flatten(p, x, depth) for x in t)


def _tolerance(p: Program, t: Term) -> float | None:
    """A tolerance argument as a number: a literal, or settings.atol / settings.rtol at the default of the Settings constructor."""
    if t[0] == "const" and isinstance(t[1], (int, float)):
        return float(t[1])
    if t[0] == "attr" and t[1] == ("global", "fuzzylite.library.settings") and t[2] in ("atol", "rtol"):
        init = p.cls("Settings").lookup("__init__")
        for prm in init.params:
            if prm.name == t[2] and isinstance(prm.default, ast.Constant) and isinstance(prm.default.value, (int, float)):
                return float(prm.default.value)
    return None


def unwrap(t: Term) -> Term:
    """Strip value-preserving wrappers (scalar(x), np.asarray(x), x.squeeze(), x.T)."""
    while True:
        if t[0] == "call" and t[1][0] == "global" and t[1][1] in IDENTITY_CALLS and t[2]:
            t = t[2][0]
        elif t[0] == "call" and t[1][0] == "attr" and t[1][2] in IDENTITY_METHODS:
            t = t[1][1]
        elif t[0] == "attr" and t[2] in IDENTITY_ATTRS:
            t = t[1]
        else:
            return t


# --------------------------------------------------------------------------------------------- linear forms
class LinearForms:
    """Linearisation of terms over a fixed set of atoms, and the sign oracle of one order type."""

    def __init__(self, atoms: dict[Term, Any], kinds: dict[Term, str], form_signs: dict[tuple, str] | None = None):
        self.val = atoms  # atom -> Fraction | +-inf
        self.kinds = kinds  # atom -> position | positive | nonzero
        self.form_signs = form_signs or {}

    # -- linearisation
    def lin(self, t: Term) -> tuple[dict[Term, Fraction], Fraction] | None:
        t = unwrap(t)
        if t in self.val:
            return ({t: Fraction(1)}, Fraction(0))
        k = t[0]
        if k == "const" and isinstance(t[1], (int, float)) and not isinstance(t[1], bool) and t[1] == t[1] and abs(t[1]) != INF:
            return ({}, Fraction(t[1]))
        if k == "unop" and t[1] in ("-", "+"):
            a = self.lin(t[2])
            if a is None:
                return None
            return a if t[1] == "+" else ({x: -c for x, c in a[0].items()}, -a[1])
        if k == "binop" and t[1] in ("+", "-"):
            a, b = self.lin(t[2]), self.lin(t[3])
            if a is None or b is None:
                return None
            sgn = 1 if t[1] == "+" else -1
            co = dict(a[0])
            for x, c in b[0].items():
                co[x] = co.get(x, Fraction(0)) + sgn * c
            return ({x: c for x, c in co.items() if c != 0}, a[1] + sgn * b[1])
        if k == "binop" and t[1] == "*":
            a, b = self.lin(t[2]), self.lin(t[3])
            if a is None or b is None:
                return None
            sa_, sb_ = self.scalar(a), self.scalar(b)
            if sa_ is not None:
                return ({x: c * sa_ for x, c in b[0].items() if c * sa_ != 0}, b[1] * sa_)
            if sb_ is not None:
                return ({x: c * sb_ for x, c in a[0].items() if c * sb_ != 0}, a[1] * sb_)
            return None
        if k == "binop" and t[1] == "/":
            a, b = self.lin(t[2]), self.lin(t[3])
            sb_ = self.scalar(b) if b is not None else None
            if a is None or sb_ is None or sb_ == 0:
                return None
            return ({x: c / sb_ for x, c in a[0].items()}, a[1] / sb_)
        if k == "call" and t[1][0] == "global" and t[1][1] in ("min", "max", "numpy.minimum", "numpy.maximum", "numpy.fmin", "numpy.fmax") and len(t[2]) == 2 and not t[3]:
            a, b = self.lin(t[2][0]), self.lin(t[2][1])
            if a is None or b is None:
                return None
            s = self.sign(self.minus(a, b))
            if s is None:
                return None
            smaller, larger = (a, b) if s in (NEG, ZERO) else (b, a)
            return smaller if t[1][1].endswith(("min", "minimum")) else larger
        return None

    def scalar(self, form) -> Fraction | None:  # type: ignore[no-untyped-def]
        """The numeric value of a form built from numbers and pinned constants only."""
        co, c0 = form
        if all(self.kinds.get(x) == "pinned" for x in co):
            return c0 + sum((c * self.val[x] for x, c in co.items()), Fraction(0))
        return None

    @staticmethod
    def minus(a, b):  # type: ignore[no-untyped-def]
        co = dict(a[0])
        for x, c in b[0].items():
            co[x] = co.get(x, Fraction(0)) - c
        return ({x: c for x, c in co.items() if c != 0}, a[1] - b[1])

    @staticmethod
    def key(form) -> tuple | None:  # type: ignore[no-untyped-def]
        """Canonical key of a linear form up to a positive factor; None for constants."""
        co, c0 = form
        if not co:
            return None
        items = sorted(co.items(), key=lambda kv: repr(kv[0]))
        scale = abs(items[0][1])
        return (tuple((x, c / scale) for x, c in items), c0 / scale)

    # -- sign of a linear form in this order type
    def sign(self, form) -> str | None:  # type: ignore[no-untyped-def]
        co, c0 = form
        if not co:
            return ZERO if c0 == 0 else (POS if c0 > 0 else NEG)
        if any(self.val[x] in (INF, -INF) for x in co):
            return None  # stepwise IEEE evaluation decides (inf - inf)
        k = self.key(form)
        if k in self.form_signs:
            return self.form_signs[k]
        nk = self.key(({x: -c for x, c in co.items()}, -c0))
        if nk in self.form_signs:
            s = self.form_signs[nk]
            return {NEG: POS, POS: NEG, ZERO: ZERO}[s]
        if any(self.kinds[x] == "nonzero" for x in co):
            return None
        if c0 != 0:
            # a pure number behaves like c0 times a pinned unit when the origin is pinned too: fold it into the positions
            zero = next((x for x in self.val if self.kinds[x] == "pinned" and self.val[x] == 0), None)
            one = next((x for x in self.val if self.kinds[x] == "pinned" and self.val[x] == 1), None)
            if zero is None or one is None:
                return None
            co = dict(co)
            co[one] = co.get(one, Fraction(0)) + c0
            co = {x: c for x, c in co.items() if c != 0}
            c0 = Fraction(0)
            if not co:
                return ZERO
            k = self.key((co, c0))
            if k in self.form_signs:
                return self.form_signs[k]
            nk = self.key(({x: -c for x, c in co.items()}, Fraction(0)))
            if nk in self.form_signs:
                return {NEG: POS, POS: NEG, ZERO: ZERO}[self.form_signs[nk]]
        zero = next((x for x in self.val if self.kinds[x] == "pinned" and self.val[x] == 0), None)
        pos_atoms = {x: c for x, c in co.items() if self.kinds[x] in ("position", "pinned")}
        total = sum(pos_atoms.values(), Fraction(0))
        if total != 0:
            if zero is None:
                return None
            pos_atoms[zero] = pos_atoms.get(zero, Fraction(0)) - total  # the origin contributes nothing to the value
        gens: list[Fraction] = [c for x, c in co.items() if self.kinds[x] == "positive"]
        levels: dict[Any, Fraction] = {}
        for x, c in pos_atoms.items():
            levels[self.val[x]] = levels.get(self.val[x], Fraction(0)) + c
        prefix = Fraction(0)
        order = sorted(levels)
        for lv in order[:-1]:
            prefix += levels[lv]
            gens.append(-prefix)  # coefficient of the (positive) gap to the next level
        if all(g == 0 for g in gens):
            return ZERO
        if all(g >= 0 for g in gens):
            return POS
        if all(g <= 0 for g in gens):
            return NEG
        return None

    def value(self, form) -> Any:  # type: ignore[no-untyped-def]
        """Exact value of the form on the witness (None when infinities cancel)."""
        co, c0 = form
        tot: Any = c0
        inf_sign = 0
        for x, c in co.items():
            v = self.val[x]
            if v in (INF, -INF):
                s = (1 if v > 0 else -1) * (1 if c > 0 else -1)
                if inf_sign and s != inf_sign:
                    return None
                inf_sign = s
            else:
                tot += c * v
        return tot if not inf_sign else inf_sign * INF


# --------------------------------------------------------------------------------------------- the evaluator
class OrderEval(Evaluator):
    def __init__(self, program: Program, lf: LinearForms, leaf: Callable[[Term], Any]):
        super().__init__(program, leaf)
        self.lf = lf

    def _sign_abs(self, t: Term) -> Any:
        form = self.lf.lin(t)
        if form is None or not form[0]:
            return None
        s = self.lf.sign(form)
        return Abs({s}) if s is not None else None

    def ev(self, t: Term) -> Any:
        k = t[0]
        if k == "cmp":
            res = frozenset({True})
            for op, a, b in zip(t[1], t[2], t[2][1:]):
                res = frozenset({x and y for x in res for y in self._cmp(op, a, b)})
            return res
        if k == "binop" and t[1] in ("+", "-", "*", "/") or (k == "unop" and t[1] == "-"):
            v = self._sign_abs(t)
            if v is not None:
                return v
        if k == "call" and t[1][0] == "global" and t[1][1] in ("min", "max", "numpy.minimum", "numpy.maximum") and len(t[2]) == 2:
            form = self.lf.lin(t)
            if form is not None:
                # the selected operand
                a, b = self.lf.lin(t[2][0]), self.lf.lin(t[2][1])
                return self.ev(t[2][0] if form == a else t[2][1])
        return super().ev(t)

    def _cmp(self, op: str, a: Term, b: Term) -> frozenset:
        from .absint import compare, to_num

        la, lb = self.lf.lin(a), self.lf.lin(b)
        if la is not None and lb is not None and (la[0] or lb[0]):
            s = self.lf.sign(self.lf.minus(la, lb))
            if s is not None:
                truth = {"<": s == NEG, "<=": s in (NEG, ZERO), ">": s == POS, ">=": s in (POS, ZERO), "==": s == ZERO, "!=": s != ZERO}
                if op in truth:
                    return frozenset({truth[op]})
        alg = getattr(self, "alg", None)
        if alg is not None and not getattr(self, "_in_alg", False):
            # compare the exact values: the sign of the difference as a factored normal form
            self._in_alg = True
            try:
                d = exact_value(a, self, alg) - exact_value(b, self, alg)
                s = rat_sign(d, self.lf, alg)
            except (NotAlgebraic, IsNaN):
                s = None
            finally:
                self._in_alg = False
            if s is not None:
                truth = {"<": s == NEG, "<=": s in (NEG, ZERO), ">": s == POS, ">=": s in (POS, ZERO), "==": s == ZERO, "!=": s != ZERO}
                if op in truth:
                    return frozenset({truth[op]})
        return compare(op, to_num(self.ev(a)), to_num(self.ev(b)))


# --------------------------------------------------------------------------------------------- order types
POSITION_GRID = [-INF, Fraction(0), Fraction(4), Fraction(8), Fraction(12), INF]
# witnesses for x: the half-integers (every parameter witness and every midpoint is one of them), and points closer to each parameter witness than the library's
# comparison tolerance - so that a tolerance comparison in a kernel (|x - p| <= atol) has order types of its own next to the exact comparison
X_GRID = [-INF] + sorted([Fraction(i, 2) for i in range(-4, 29)] + [Fraction(v) + d for v in (0, 4, 8, 12) for d in (Fraction(-1, 4096), Fraction(1, 4096))]) + [INF]
POSITIVE_GRID = [Fraction(3)]
NONZERO_GRID = [Fraction(-3, 2), Fraction(3, 2)]
DEFAULT_GRIDS = {"position": POSITION_GRID, "positive": POSITIVE_GRID, "nonzero": NONZERO_GRID}


def comparison_forms(lf0: LinearForms, terms: Iterable[Term]) -> list[tuple]:
    """Keys of the linear forms whose sign decides a comparison (lhs - rhs) or a min/max somewhere in the terms. Operands that are
    themselves piecewise linear (min / max / where of linear forms) contribute every alternative."""
    keys = []
    seen = set()

    def add(form) -> None:  # type: ignore[no-untyped-def]
        k = lf0.key(form)
        if k is not None and k not in seen:
            seen.add(k)
            keys.append((k, form))

    probe = LinearForms(lf0.val, lf0.kinds, {})
    probe.sign = lambda form: None  # type: ignore[method-assign]  # min/max unresolved while collecting

    def alts(t: Term, depth: int = 4) -> list:
        u = unwrap(t)
        direct = probe.lin(u)
        if direct is not None:
            return [direct]
        if depth <= 0:
            return []
        if u[0] == "call" and u[1][0] == "global":
            short = u[1][1].split(".")[-1]
            if short in ("min", "max", "minimum", "maximum", "fmin", "fmax") and len(u[2]) == 2:
                return (alts(u[2][0], depth - 1) + alts(u[2][1], depth - 1))[:16]
            if short == "where" and len(u[2]) == 3:
                return (alts(u[2][1], depth - 1) + alts(u[2][2], depth - 1))[:16]
        if u[0] == "ifexp":
            return (alts(u[2], depth - 1) + alts(u[3], depth - 1))[:16]
        if u[0] == "binop" and u[1] in ("+", "-"):
            out = []
            for a in alts(u[2], depth - 1):
                for b in alts(u[3], depth - 1):
                    if u[1] == "+":
                        out.append(probe.minus(a, ({x: -c for x, c in b[0].items()}, -b[1])))
                    else:
                        out.append(probe.minus(a, b))
            return out[:16]
        if u[0] == "unop" and u[1] == "-":
            return [({x: -c for x, c in a[0].items()}, -a[1]) for a in alts(u[2], depth - 1)]
        if u[0] == "binop" and u[1] in ("*", "/"):
            l_, r_ = alts(u[2], depth - 1), alts(u[3], depth - 1)
            out = []
            for a in l_:
                for b in r_:
                    sa_, sb_ = probe.scalar(a), probe.scalar(b)
                    if u[1] == "*" and sa_ is not None:
                        out.append(({x: c * sa_ for x, c in b[0].items()}, b[1] * sa_))
                    elif sb_ is not None and (u[1] == "*" or sb_ != 0):
                        k_ = sb_ if u[1] == "*" else 1 / sb_
                        out.append(({x: c * k_ for x, c in a[0].items()}, a[1] * k_))
            return out[:16]
        return []

    for t in terms:
        for s in walk(t):
            pairs = []
            if s[0] == "cmp":
                pairs = list(zip(s[2], s[2][1:]))
            elif s[0] == "call" and s[1][0] == "global" and s[1][1].split(".")[-1] in ("min", "max", "minimum", "maximum", "fmin", "fmax") and len(s[2]) == 2:
                pairs = [(s[2][0], s[2][1])]
            for a, b in pairs:
                for la in alts(a):
                    for lb in alts(b):
                        add(probe.minus(la, lb))
    return keys


def order_types(atoms: dict[Term, str], forms: list[tuple], valid: Callable[[LinearForms], bool] | None = None,
                grids: dict[Term, list[Any]] | None = None):
    """Yield one LinearForms (witness + sign table) per distinct feasible order type of the atoms.

    atoms: term -> kind (position | positive | nonzero | pinned); grids: the witness values tried for an atom (pinned
    atoms have a single value)."""
    names = list(atoms)
    gl = [(grids or {}).get(a) or DEFAULT_GRIDS[atoms[a]] for a in names]
    kinds = dict(atoms)
    seen = set()
    for combo in itertools.product(*gl):
        val = dict(zip(names, combo))
        lf = LinearForms(val, kinds, {})
        signs = {}
        for k, form in forms:
            v = lf.value(form)
            if v is None or v in (INF, -INF):
                continue  # comparisons with infinite atoms are decided stepwise on the classes
            signs[k] = ZERO if v == 0 else (POS if v > 0 else NEG)
        lf.form_signs = signs
        positions = [a for a in val if kinds[a] in ("position", "pinned")]
        levels = sorted({val[a] for a in positions})
        sig = (tuple((val[a] in (INF, -INF) and val[a], levels.index(val[a])) for a in sorted(positions, key=repr)),
               tuple(sorted((repr(k), s) for k, s in signs.items())),
               tuple((repr(a), val[a] > 0) for a in sorted(val, key=repr) if kinds[a] == "nonzero"))
        if sig in seen:
            continue
        if valid is not None and not valid(lf):
            continue
        seen.add(sig)
        yield lf


def describe(lf: LinearForms, short: dict[Term, str]) -> str:
    """x and the parameters in increasing order with ties, e.g. `s = x < e`."""
    groups: dict[Any, list[str]] = {}
    for a, v in lf.val.items():
        if lf.kinds[a] in ("position", "pinned"):
            groups.setdefault(v, []).append(short.get(a, show(a)))
    parts = []
    for v in sorted(groups):
        g = " = ".join(sorted(groups[v]))
        if v in (INF, -INF):
            g += " = " + ("+inf" if v > 0 else "-inf")
        parts.append(g)
    extra = [f"{short.get(a, show(a))}={'+' if v > 0 else '-'}" for a, v in lf.val.items() if lf.kinds[a] == "nonzero"]
    return " < ".join(parts) + (" (" + ", ".join(extra) + ")" if extra else "")


def leaf_env(lf: LinearForms, height: Term | None = None) -> Callable[[Term], Any]:
    def env(t: Term) -> Any:
        u = unwrap(t)
        if u in lf.val:
            v = lf.val[u]
            if v == INF:
                return Abs({PINF})
            if v == -INF:
                return Abs({NINF})
            kind = lf.kinds[u]
            if kind == "pinned":
                return Abs({ZERO if v == 0 else (POS if v > 0 else NEG)})
            if kind == "positive":
                return Abs({POS})
            zero = next((a for a in lf.val if lf.kinds[a] == "pinned" and lf.val[a] == 0), None)
            if kind == "position" and zero is not None:
                return Abs({ZERO if v == 0 else (POS if v > 0 else NEG)})  # the order type fixes the side of the origin
            if kind == "nonzero":
                return Abs({POS if v > 0 else NEG})
            return Abs(FINITE)
        if height is not None and u == height:
            return Abs({POS})
        return None

    return env


# --------------------------------------------------------------------------------------------- specification terms
def spec_term(src: str, names: dict[str, Term]) -> Term:
    """A documented definition written as a Python expression over short names -> a term of the analyser's language."""
    tree = ast.parse(src, mode="eval").body

    def conv(e: ast.AST) -> Term:
        if isinstance(e, ast.Name):
            if e.id in names:
                return names[e.id]
            if e.id == "inf":
                return ("global", "math.inf")
            if e.id == "pi":
                return ("global", "math.pi")
            if e.id == "nan":
                return ("global", "math.nan")
            raise AnalysisError(f"specification: unknown name {e.id}")
        if isinstance(e, ast.Constant):
            return ("const", e.value)
        if isinstance(e, ast.Name) and e.id in ("True", "False"):
            return ("const", e.id == "True")
        if isinstance(e, ast.UnaryOp):
            op = {ast.USub: "-", ast.UAdd: "+", ast.Not: "not"}[type(e.op)]
            return ("unop", op, conv(e.operand))
        if isinstance(e, ast.BinOp):
            op = {ast.Add: "+", ast.Sub: "-", ast.Mult: "*", ast.Div: "/", ast.Pow: "**"}[type(e.op)]
            return ("binop", op, conv(e.left), conv(e.right))
        if isinstance(e, ast.Compare):
            ops = tuple({ast.Lt: "<", ast.LtE: "<=", ast.Gt: ">", ast.GtE: ">=", ast.Eq: "==", ast.NotEq: "!="}[type(o)] for o in e.ops)
            return ("cmp", ops, tuple(conv(x) for x in [e.left] + list(e.comparators)))
        if isinstance(e, ast.BoolOp):
            return ("bool", "and" if isinstance(e.op, ast.And) else "or", tuple(conv(v) for v in e.values))
        if isinstance(e, ast.Call) and isinstance(e.func, ast.Name):
            fn = {"sqrt": "numpy.sqrt", "abs": "numpy.abs", "cos": "numpy.cos", "exp": "numpy.exp", "min": "min", "max": "max"}[e.func.id]
            return ("call", ("global", fn), tuple(conv(a) for a in e.args), ())
        raise AnalysisError(f"specification: unsupported syntax {ast.dump(e)[:60]}")

    return conv(tree)


def eval_cases(ev: OrderEval, cases: list[tuple[Term | None, Term]]) -> Any:
    """First matching case wins; a case whose condition is undecided contributes and the search goes on."""
    out = None
    for cond, value in cases:
        c = frozenset({True}) if cond is None else ev.ev(cond)
        if not is_bool(c):
            raise AnalysisError("specification condition is not boolean")
        if True in c:
            v = ev.ev(value)
            out = v if out is None else Abs(out | v)
        if False not in c:
            break
    return out if out is not None else Abs({NAN})


# --------------------------------------------------------------------------------------------- exact values per order type
class NotAlgebraic(Exception):
    """The value at this order type is not expressible as a normal form (undecided condition, infinite atom, unknown callee)."""


class IsNaN(Exception):
    """The value at this order type is NaN (explicit nan, or 0/0)."""


def exact_value(t: Term, ev: OrderEval, alg) -> Any:  # type: ignore[no-untyped-def]
    """The value of term t at ev's order type as a rational-function normal form (sa.algebra.Rat).

    Atoms that coincide in the order type are identified (x == s turns (x - s) / (e - s) into 0), pinned constants become
    numbers, conditions are decided by the order type. Raises NotAlgebraic / IsNaN."""
    from .algebra import Rat, Undefined

    lf = ev.lf

    def rep(a: Term):  # type: ignore[no-untyped-def]
        v = lf.val[a]
        if v in (INF, -INF):
            raise NotAlgebraic("infinite atom")
        if lf.kinds[a] in ("position", "pinned"):
            tied = [b for b in lf.val if lf.kinds[b] in ("position", "pinned") and lf.val[b] == v]
            pinned = [b for b in tied if lf.kinds[b] == "pinned"]
            if pinned:
                return Rat.const(v)
            return Rat.sym(min(tied, key=repr))
        return Rat.sym(a)

    def boolean(u: Term):  # type: ignore[no-untyped-def]
        b = ev.ev(u)
        if is_bool(b) and len(b) == 1:
            return Rat.const(1 if True in b else 0)
        if u[0] == "call" and u[1] == ("global", "numpy.isnan") and len(u[2]) == 1:
            # a value with a normal form whose function symbols are applied inside their domains is a number
            try:
                d = domain(go(u[2][0]), lf, alg)
            except IsNaN:
                return Rat.const(1)
            if d is True:
                return Rat.const(0)
            if d is False:
                return Rat.const(1)
        raise NotAlgebraic(f"undecided condition {show(u)[:60]}")

    def num(c: Any):  # type: ignore[no-untyped-def]
        return Rat.const(Fraction(c))

    def go(t: Term):  # type: ignore[no-untyped-def]
        u = unwrap(t)
        if u in lf.val:
            return rep(u)
        k = u[0]
        if k == "const":
            c = u[1]
            if isinstance(c, bool):
                return num(int(c))
            if isinstance(c, (int, float)):
                if c != c:
                    raise IsNaN()
                if abs(c) == INF:
                    raise NotAlgebraic("infinite constant")
                return num(c)
            raise NotAlgebraic(f"constant {c!r}")
        if k == "global":
            if u[1].endswith(".nan"):
                raise IsNaN()
            if u[1].endswith(".pi"):
                return Rat.sym("pi")
            if u[1].endswith(".inf"):
                raise NotAlgebraic("infinite constant")
            raise NotAlgebraic(u[1])
        if k == "attr" and u[1] == SELF:
            return Rat.sym(u)
        if k == "param":
            return Rat.sym(u)
        if k == "unop" and u[1] in ("-", "+"):
            return -go(u[2]) if u[1] == "-" else go(u[2])
        if k in ("cmp", "bool") or (k == "unop" and u[1] in ("not", "~")) or (k == "binop" and u[1] in ("&", "|", "^")):
            return boolean(u)
        if k == "binop":
            op = u[1]
            if op == "**":
                return power(go(u[2]), u[3])
            a, b = go(u[2]), go(u[3])
            if op == "+":
                return a + b
            if op == "-":
                return a - b
            if op == "*":
                return alg.reduce(a * b)
            if op == "/":
                if b.is_zero():
                    if a.is_zero():
                        raise IsNaN()
                    raise NotAlgebraic("division by zero")
                return alg.reduce(a / b)
            raise NotAlgebraic(f"operator {op}")
        if k == "ifexp":
            c = ev.ev(u[1])
            if is_bool(c) and len(c) == 1:
                return go(u[2] if True in c else u[3])
            return go(u[2] if boolean(unwrap(u[1])).equals(Rat.const(1)) else u[3])
        if k == "call" and u[1][0] == "global":
            g = u[1][1]
            short = g.split(".")[-1]
            args = u[2]
            if g.startswith("numpy.") or g in ("abs", "min", "max", "pow", "math.sqrt", "math.exp", "math.log", "math.cos"):
                if short == "where" and len(args) == 3:
                    c = ev.ev(args[0])
                    if not is_bool(c):
                        raise NotAlgebraic("where on a number")
                    if len(c) == 1:
                        return go(args[1] if True in c else args[2])
                    return go(args[1] if boolean(unwrap(args[0])).equals(Rat.const(1)) else args[2])
                if short in ("isnan", "isfinite", "isinf", "logical_and", "logical_or", "logical_not"):
                    return boolean(u)
                if short in ("full_like", "full") and len(args) >= 2:
                    return go(args[1])  # an array filled with the value: elementwise, the value
                if short in ("ones_like", "zeros_like"):
                    return num(1 if short == "ones_like" else 0)
                if short == "square":
                    return alg.reduce(go(args[0]).pow(2))
                if short in ("sqrt", "exp", "log", "cos", "sin"):
                    return alg.fn(short, go(args[0]))
                if short in ("abs", "absolute", "fabs"):
                    return alg.fn("abs", go(args[0]))
                if short == "negative":
                    return -go(args[0])
                if short == "sign" and len(args) == 1:
                    la = lf.lin(args[0])
                    s_ = lf.sign(la) if la is not None else None
                    if s_ is None:
                        s_ = rat_sign(go(args[0]), lf, alg)
                    if s_ is None:
                        raise NotAlgebraic("undecided sign")
                    return num(-1 if s_ == NEG else (0 if s_ == ZERO else 1))
                if short in ("power", "float_power", "pow") and len(args) == 2:
                    return power(go(args[0]), args[1])
                if short in ("min", "max", "minimum", "maximum", "fmin", "fmax") and len(args) == 2:
                    la, lb = lf.lin(args[0]), lf.lin(args[1])
                    s_ = lf.sign(lf.minus(la, lb)) if la is not None and lb is not None else None
                    if s_ is None:
                        ra_, rb_ = go(args[0]), go(args[1])
                        s_ = rat_sign(ra_ - rb_, lf, alg)
                        if s_ is None and getattr(alg, "witness", None) is not None:
                            # the order type does not order the two operands (a comparison of two curves): decide it *at the witness* - a concrete
                            # member of the order type. A disagreement found this way is a real counterexample; an agreement proves nothing
                            # about the rest of the piece (the caller counts it as undecided: `alg.witness_only`)
                            dv = alg.evaluate(ra_ - rb_, alg.witness)
                            if dv == dv and abs(dv) > 1e-9:
                                s_ = NEG if dv < 0 else POS
                                alg.witness_only = True
                        if s_ is None:
                            raise NotAlgebraic(f"undecided {short}")
                        first_smaller = s_ in (NEG, ZERO)
                        return ra_ if first_smaller == (short in ("min", "minimum", "fmin")) else rb_
                    first_smaller = s_ in (NEG, ZERO)
                    want_small = short in ("min", "minimum", "fmin")
                    return go(args[0] if first_smaller == want_small else args[1])
            raise NotAlgebraic(f"call {g}")
        if k == "call" and u[1][0] == "attr" and u[1][2] in ("sum", "mean", "max", "min") and not u[2]:
            raise NotAlgebraic("reduction")
        raise NotAlgebraic(show(u)[:60])

    def power(base, expo: Term):  # type: ignore[no-untyped-def]
        e = unwrap(expo)
        if e[0] == "const" and isinstance(e[1], (int, float)) and not isinstance(e[1], bool):
            if float(e[1]).is_integer():
                k_ = int(e[1])
                if k_ < 0 and base.is_zero():
                    raise NotAlgebraic("division by zero")
                return alg.reduce(base.pow(k_))
            if e[1] == 0.5:
                return alg.fn("sqrt", base)
        return alg.fn("pow", base, go(expo))

    try:
        return alg.reduce(go(t))
    except Undefined:
        raise NotAlgebraic("division by zero") from None


def abs_sign_oracle(lf: LinearForms):
    """Sign of a normal form whose numerator and denominator are linear forms of the atoms or products of atoms of known sign
    (used to resolve abs())."""
    origin = next((a for a in lf.val if lf.kinds[a] == "pinned" and lf.val[a] == 0), None)

    def atom_sign(a: Any) -> str | None:
        if a not in lf.val:
            return None
        kind, v = lf.kinds[a], lf.val[a]
        if kind == "positive":
            return POS
        if kind == "nonzero":
            return POS if v > 0 else NEG
        if kind == "pinned" or origin is not None:
            return ZERO if v == 0 else (POS if v > 0 else NEG)
        return None

    def poly_sign(pl) -> str | None:  # type: ignore[no-untyped-def]
        if pl.is_zero():
            return ZERO
        co: dict[Term, Fraction] = {}
        c0 = Fraction(0)
        linear = True
        for m, c in pl.t.items():
            if m == ():
                c0 += c
            elif len(m) == 1 and m[0][1] == 1 and m[0][0] in lf.val:
                co[m[0][0]] = co.get(m[0][0], Fraction(0)) + c
            else:
                linear = False
        if linear:
            return lf.sign((co, c0))
        if len(pl.t) == 1:  # a monomial: product of signs
            (m, c), = pl.t.items()
            sgn = 1 if c > 0 else -1
            for a, e in m:
                s_ = atom_sign(a)
                if s_ is None:
                    if e % 2 == 0:
                        continue  # an even power is not negative (zero is excluded by the caller's use: abs)
                    return None
                if s_ == ZERO:
                    return ZERO
                if s_ == NEG and e % 2:
                    sgn = -sgn
            return POS if sgn > 0 else NEG
        return None

    def sign_of(r) -> str | None:  # type: ignore[no-untyped-def]
        sn, sd = poly_sign(r.n), poly_sign(r.d)
        if sn is None or sd is None or sd == ZERO:
            return None
        if sn == ZERO:
            return ZERO
        return POS if sn == sd else NEG

    return sign_of


def numeric_witness(lf: LinearForms, extra: dict[Any, float] | None = None) -> dict[Any, float]:
    import math

    val: dict[Any, float] = {"pi": math.pi}
    for a, v in lf.val.items():
        val[a] = float(v)
    val.update(extra or {})
    return val


# --------------------------------------------------------------------------------------------- signs of normal forms
def _mul_sign(a: str | None, b: str | None) -> str | None:
    if a == ZERO or b == ZERO:
        return ZERO
    if a is None or b is None:
        return None
    return POS if a == b else NEG


def rat_sign(r, lf: LinearForms, alg, depth: int = 4) -> str | None:  # type: ignore[no-untyped-def]
    """Sign of a normal form in the order type, by factoring: linear forms of the atoms, monomials, common monomial factors,
    linear factors (differences of atoms), and `a*sqrt(A) + b` through the sign of a^2*A - b^2."""
    from .algebra import Fn, Poly, Rat

    origin = next((a for a in lf.val if lf.kinds[a] == "pinned" and lf.val[a] == 0), None)

    def sym_sign(sy: Any) -> str | None:
        if isinstance(sy, Fn):
            if sy.name == "sqrt":
                s_ = rat_sign(sy.args[0], lf, alg, depth - 1) if depth > 0 else None
                return s_ if s_ in (POS, ZERO) else None
            if sy.name == "exp":
                return POS
            if sy.name == "abs":
                s_ = rat_sign(sy.args[0], lf, alg, depth - 1) if depth > 0 else None
                return ZERO if s_ == ZERO else (POS if s_ in (POS, NEG) else None)
            if sy.name == "log":
                return rat_sign(sy.args[0] - Rat.const(1), lf, alg, depth - 1) if depth > 0 else None
            if sy.name == "pow":
                s_ = rat_sign(sy.args[0], lf, alg, depth - 1) if depth > 0 else None
                return POS if s_ == POS else None
            return None
        if sy == "pi":
            return POS
        if sy in lf.val:
            kind, v = lf.kinds[sy], lf.val[sy]
            if kind == "positive":
                return POS
            if kind == "nonzero":
                return POS if v > 0 else NEG
            if kind == "pinned" or origin is not None:
                return ZERO if v == 0 else (POS if v > 0 else NEG)
            return None
        if isinstance(sy, tuple) and sy[:2] == ("attr", SELF) and sy[2] == "height":
            return POS
        return None

    def linear(pl: Poly):  # type: ignore[no-untyped-def]
        co: dict[Term, Fraction] = {}
        c0 = Fraction(0)
        for m, c in pl.t.items():
            if m == ():
                c0 += c
            elif len(m) == 1 and m[0][1] == 1 and m[0][0] in lf.val:
                co[m[0][0]] = co.get(m[0][0], Fraction(0)) + c
            else:
                return None
        return (co, c0)

    def divide(pl: Poly, lin: dict[Any, Fraction]) -> Poly | None:
        """Exact division of pl by the linear polynomial sum(c*v) (no constant term); None when it does not divide."""
        v, cv = sorted(lin.items(), key=lambda kv: repr(kv[0]))[0]
        rest = Poly({((q, 1),): c for q, c in lin.items() if q != v})
        rem = pl
        quo = Poly()
        for _ in range(12):
            dg = rem.degree_in(v)
            if dg == 0:
                break
            lead = Poly({tuple((q, e) for q, e in m if q != v) + (((v, dg - 1),) if dg > 1 else ()): c / cv
                         for m, c in rem.t.items() if dict(m).get(v, 0) == dg})
            lead = Poly({tuple(sorted(m, key=lambda kv: repr(kv[0]))): c for m, c in lead.t.items()})
            quo = quo + lead
            rem = rem - lead * (Poly({((v, 1),): cv}) + rest)
        return quo if rem.is_zero() else None

    def poly_sign(pl: Poly, budget: int = 6) -> str | None:
        if pl.is_zero():
            return ZERO
        if pl.is_const():
            return POS if pl.const_value() > 0 else NEG
        if len(pl.t) == 1:
            (m, c), = pl.t.items()
            sg: str | None = POS if c > 0 else NEG
            for q, e in m:
                sq = sym_sign(q)
                if sq is None:
                    return None
                sg = _mul_sign(sg, sq if (e % 2 or sq == ZERO) else POS)
            return sg
        lin = linear(pl)
        if lin is not None:
            return lf.sign(lin)
        # common monomial factor
        monos = list(pl.t)
        common: dict[Any, int] = dict(monos[0])
        for m in monos[1:]:
            dm = dict(m)
            common = {q: min(e, dm.get(q, 0)) for q, e in common.items() if dm.get(q, 0) > 0}
        if common:
            g_sign: str | None = POS
            for q, e in common.items():
                sq = sym_sign(q)
                if sq is None:
                    g_sign = None  # the factor may vanish or be negative: nothing is known
                    break
                g_sign = _mul_sign(g_sign, sq if (e % 2 or sq == ZERO) else POS)
            cof = Poly({tuple((q, e - common.get(q, 0)) for q, e in m if e - common.get(q, 0) > 0): c for m, c in pl.t.items()})
            return _mul_sign(g_sign, poly_sign(cof, budget - 1)) if budget > 0 else None
        if len(pl.t) == 1:
            return None
        # a * sqrt(A) + b
        for q in sorted((x for x in pl.symbols() if isinstance(x, Fn) and x.name == "sqrt" and pl.degree_in(x) == 1), key=repr):
            a_ = Poly({tuple((y, e) for y, e in m if y != q): c for m, c in pl.t.items() if dict(m).get(q, 0) == 1})
            b_ = Poly({m: c for m, c in pl.t.items() if dict(m).get(q, 0) == 0})
            sa_, sb_ = poly_sign(a_, budget - 1), poly_sign(b_, budget - 1)
            sq = sym_sign(q)
            if sa_ is None or sb_ is None or sq is None or budget <= 0:
                continue
            if sq == ZERO or sa_ == ZERO:
                return sb_
            if sb_ == ZERO or sb_ == sa_:
                return sa_
            # opposite signs: a*q > -b  <=>  a^2 * A > b^2 (both sides non-negative), oriented by the sign of a
            diff = alg.reduce(Rat(a_ * a_) * q.args[0] - Rat(b_ * b_))
            sd = rat_sign(diff, lf, alg, depth - 1) if depth > 0 else None
            return _mul_sign(sa_, sd) if sd is not None else None
        # linear factors: differences of atoms that occur in the polynomial, and atom - pinned constant
        if budget > 0:
            atoms = sorted((x for x in pl.symbols() if x in lf.val and lf.kinds[x] in ("position", "pinned")), key=repr)
            pins = sorted({lf.val[x] for x in lf.val if lf.kinds[x] == "pinned"})
            cands: list[tuple[dict, Fraction]] = []
            for i_, a in enumerate(atoms):
                for b in atoms[i_ + 1:]:
                    cands.append(({a: Fraction(1), b: Fraction(-1)}, Fraction(0)))
                for c_ in pins:
                    cands.append(({a: Fraction(1)}, -Fraction(c_)))
            for lin_, c0_ in cands:
                q_ = poly_divide(pl, lin_, c0_)
                if q_ is not None:
                    return _mul_sign(lf.sign((dict(lin_), c0_)), poly_sign(q_, budget - 1))
        return None

    def with_intervals(pl: Poly) -> str | None:
        s_ = poly_sign(pl)
        if s_ is None:
            s_ = interval_sign(pl, lf, alg)
        return s_

    sn = with_intervals(r.n)
    if sn == ZERO:
        return ZERO
    sd = with_intervals(r.d)
    if sn is None or sd is None or sd == ZERO:
        return None
    return POS if sn == sd else NEG


# --------------------------------------------------------------------------------------------- interval fallback
class Interval:
    """[lo, hi] over the rationals with open/closed ends (+-inf allowed)."""

    __slots__ = ("lo", "hi", "lo_open", "hi_open")

    def __init__(self, lo: Any, hi: Any, lo_open: bool = False, hi_open: bool = False):
        self.lo, self.hi, self.lo_open, self.hi_open = lo, hi, lo_open or lo == -INF, hi_open or hi == INF

    @staticmethod
    def point(v: Any) -> "Interval":
        return Interval(v, v)

    def __add__(self, o: "Interval") -> "Interval":
        return Interval(self.lo + o.lo, self.hi + o.hi, self.lo_open or o.lo_open, self.hi_open or o.hi_open)

    def scale(self, c: Fraction) -> "Interval":
        if c == 0:
            return Interval.point(Fraction(0))
        if c > 0:
            return Interval(self.lo * c, self.hi * c, self.lo_open, self.hi_open)
        return Interval(self.hi * c, self.lo * c, self.hi_open, self.lo_open)

    def __mul__(self, o: "Interval") -> "Interval":
        cands = []
        for a, ao in ((self.lo, self.lo_open), (self.hi, self.hi_open)):
            for b, bo in ((o.lo, o.lo_open), (o.hi, o.hi_open)):
                if (a == 0 and not ao) or (b == 0 and not bo):
                    cands.append((Fraction(0), False))
                elif a == 0 or b == 0:
                    cands.append((Fraction(0), True))  # 0 * inf treated as a limit: never attained
                else:
                    cands.append((a * b, ao or bo))
        lo = min(c[0] for c in cands)
        hi = max(c[0] for c in cands)
        lo_open = all(c[1] for c in cands if c[0] == lo)
        hi_open = all(c[1] for c in cands if c[0] == hi)
        return Interval(lo, hi, lo_open, hi_open)

    def power(self, k: int) -> "Interval":
        out = Interval.point(Fraction(1))
        for _ in range(k):
            out = out * self
        if k % 2 == 0 and k > 0:
            lo = max(out.lo, Fraction(0))
            out = Interval(lo, out.hi, out.lo_open and out.lo >= 0, out.hi_open)
            if self.lo <= 0 <= self.hi and not ((self.lo == 0 and self.lo_open) or (self.hi == 0 and self.hi_open)):
                out = Interval(Fraction(0), out.hi, False, out.hi_open)
        return out

    def sign(self) -> str | None:
        if self.lo == self.hi == 0:
            return ZERO
        if self.lo > 0 or (self.lo == 0 and self.lo_open):
            return POS
        if self.hi < 0 or (self.hi == 0 and self.hi_open):
            return NEG
        return None


def atom_interval(a: Any, lf: LinearForms, alg, depth: int = 3) -> Interval:  # type: ignore[no-untyped-def]
    """What the order type says about the value of a symbol: pinned constants are points, other atoms lie strictly between the
    neighbouring pinned constants (or coincide with one)."""
    from .algebra import Fn

    everything = Interval(-INF, INF)
    if isinstance(a, Fn):
        if depth <= 0:
            return everything
        arg = rat_interval(a.args[0], lf, alg, depth - 1)
        if a.name == "sqrt" and arg is not None and arg.lo >= 0:
            import math

            def rt(v: Any, up: bool) -> Any:
                if v == INF:
                    return INF
                f_ = Fraction(math.isqrt(v.numerator * v.denominator), v.denominator)  # floor of the root
                if f_ * f_ == v:
                    return f_
                return f_ + Fraction(1, v.denominator) if up else f_

            lo, hi = rt(arg.lo, False), rt(arg.hi, True)
            return Interval(lo, hi, arg.lo_open and lo * lo == arg.lo, arg.hi_open and hi != INF and hi * hi == arg.hi)
        if a.name == "exp":
            return Interval(Fraction(0), INF, True, True)
        if a.name == "abs":
            return Interval(Fraction(0), INF, False, True)
        if a.name in ("cos", "sin"):
            return Interval(Fraction(-1), Fraction(1))
        return everything
    if a == "pi":
        return Interval(Fraction(3), Fraction(4), True, True)
    if a not in lf.val:
        if isinstance(a, tuple) and a[:2] == ("attr", SELF) and a[2] == "height":
            return Interval(Fraction(0), INF, True, True)
        return everything
    kind, v = lf.kinds[a], lf.val[a]
    if v in (INF, -INF):
        return everything
    if kind == "pinned":
        return Interval.point(v)
    if kind == "positive":
        return Interval(Fraction(0), INF, True, True)
    if kind == "nonzero":
        return Interval(Fraction(0), INF, True, True) if v > 0 else Interval(-INF, Fraction(0), True, True)
    pins = sorted(lf.val[p_] for p_ in lf.val if lf.kinds[p_] == "pinned")
    if v in pins:
        return Interval.point(v)
    below = [q for q in pins if q < v]
    above = [q for q in pins if q > v]
    return Interval(below[-1] if below else -INF, above[0] if above else INF, True, True)


def poly_interval(pl, lf: LinearForms, alg, depth: int = 3):  # type: ignore[no-untyped-def]
    tot = Interval.point(Fraction(0))
    for m, c in pl.t.items():
        term = Interval.point(Fraction(1))
        for q, e in m:
            term = term * atom_interval(q, lf, alg, depth).power(e)
        tot = tot + term.scale(c)
    return tot


def rat_interval(r, lf: LinearForms, alg, depth: int = 3):  # type: ignore[no-untyped-def]
    n, d = poly_interval(r.n, lf, alg, depth), poly_interval(r.d, lf, alg, depth)
    sd = d.sign()
    if sd not in (POS, NEG):
        return None
    if sd == NEG:
        n, d = n.scale(Fraction(-1)), d.scale(Fraction(-1))
    if d.lo == 0:
        inv = Interval(Fraction(1) / d.hi if d.hi != INF else Fraction(0), INF, d.hi_open or d.hi == INF, True)
    else:
        inv = Interval(Fraction(1) / d.hi if d.hi != INF else Fraction(0), Fraction(1) / d.lo, d.hi_open or d.hi == INF, d.lo_open)
    return n * inv


def interval_sign(pl, lf: LinearForms, alg) -> str | None:  # type: ignore[no-untyped-def]
    try:
        return poly_interval(pl, lf, alg).sign()
    except (TypeError, ZeroDivisionError, OverflowError):
        return None


def domain(r, lf: LinearForms, alg) -> bool | None:  # type: ignore[no-untyped-def]
    """True: every function symbol of the normal form is applied inside its real domain and no denominator vanishes (the value is a
    real number); False: some application is definitely outside; None: unknown."""
    from .algebra import Fn

    verdict: bool | None = True
    todo = list(r.symbols())
    seen = set()
    sd = rat_sign_poly(r.d, lf, alg)
    if sd == ZERO:
        return False
    if sd is None:
        verdict = None
    while todo:
        sy = todo.pop()
        if not isinstance(sy, Fn) or sy in seen:
            continue
        seen.add(sy)
        for a in sy.args:
            todo += list(a.symbols())
            sda = rat_sign_poly(a.d, lf, alg)
            if sda == ZERO:
                return False
            if sda is None:
                verdict = None
        s_ = rat_sign(sy.args[0], lf, alg)
        if sy.name == "sqrt":
            if s_ == NEG:
                return False
            if s_ is None:
                verdict = None
        elif sy.name == "log":
            if s_ in (NEG, ZERO):
                return False
            if s_ is None:
                verdict = None
        elif sy.name == "pow":
            if s_ != POS:
                verdict = None
    return verdict


def rat_sign_poly(pl, lf: LinearForms, alg):  # type: ignore[no-untyped-def]
    from .algebra import Rat

    return rat_sign(Rat(pl), lf, alg)


def poly_divide(pl, lin: dict[Any, Fraction], const: Fraction = Fraction(0)):  # type: ignore[no-untyped-def]
    """Exact division of a polynomial by the linear polynomial sum(c*v) + const; None when it does not divide."""
    from .algebra import Poly

    v, cv = sorted(lin.items(), key=lambda kv: repr(kv[0]))[0]
    rest = Poly({((q, 1),): c for q, c in lin.items() if q != v}) + Poly.const(const)
    rem = pl
    quo = Poly()
    for _ in range(12):
        dg = rem.degree_in(v)
        if dg == 0:
            break
        lead = Poly({tuple(sorted([(q, e) for q, e in m if q != v] + ([(v, dg - 1)] if dg > 1 else []), key=lambda kv: repr(kv[0]))): c / cv
                     for m, c in rem.t.items() if dict(m).get(v, 0) == dg})
        quo = quo + lead
        rem = rem - lead * (Poly({((v, 1),): cv}) + rest)
    return quo if rem.is_zero() else None


def factor_poly(pl, lf: LinearForms):  # type: ignore[no-untyped-def]
    """(constant, [(factor polynomial, multiplicity)]) with monomial symbols and differences/sums of position atoms as factors,
    or None when a non-constant cofactor is left."""
    from .algebra import Poly

    if pl.is_zero():
        return None
    factors: list[tuple[Any, int]] = []
    monos = list(pl.t)
    common = dict(monos[0])
    for m in monos[1:]:
        dm = dict(m)
        common = {q: min(e, dm.get(q, 0)) for q, e in common.items() if dm.get(q, 0) > 0}
    for q, e in common.items():
        factors.append((Poly.sym(q), e))
    cof = Poly({tuple((q, e - common.get(q, 0)) for q, e in m if e - common.get(q, 0) > 0): c for m, c in pl.t.items()})
    atoms = sorted((x for x in cof.symbols() if x in lf.val and lf.kinds[x] in ("position", "pinned", "positive", "nonzero")), key=repr)
    cands = []
    for i_, a in enumerate(atoms):
        for b in atoms[i_ + 1:]:
            cands.append({a: Fraction(1), b: Fraction(-1)})
            cands.append({a: Fraction(1), b: Fraction(1)})
    pins = sorted({lf.val[x] for x in lf.val if lf.kinds[x] == "pinned"})
    cands2 = [(lin, Fraction(0)) for lin in cands] + [({a: Fraction(1)}, -Fraction(c_)) for a in atoms for c_ in pins if c_ != 0]
    for lin, c0_ in cands2:
        mult = 0
        while not cof.is_const():
            q_ = poly_divide(cof, lin, c0_)
            if q_ is None:
                break
            cof, mult = q_, mult + 1
        if mult:
            factors.append((Poly({((v, 1),): c for v, c in lin.items()}) + Poly.const(c0_), mult))
    if not cof.is_const():
        return None
    return cof.const_value(), factors


def make_algebra(lf: LinearForms):
    """An algebra context that knows the order type: abs() is resolved by the sign of its argument, sqrt() of a perfect square
    (found by factoring into monomials and differences/sums of atoms) is the absolute value of the root."""
    import math

    from .algebra import Algebra, Rat

    alg: Any = None

    def root(r):  # type: ignore[no-untyped-def]
        fn_, fd_ = factor_poly(r.n, lf), (factor_poly(r.d, lf) if not r.d.is_const() else (r.d.const_value(), []))
        if fn_ is None or fd_ is None:
            return None
        c = Fraction(fn_[0]) / Fraction(fd_[0])
        if c < 0:
            return None
        rc = Fraction(math.isqrt(c.numerator), math.isqrt(c.denominator))
        if rc * rc != c or any(m % 2 for _, m in fn_[1] + fd_[1]):
            return None
        if not fn_[1] and not fd_[1]:
            return None  # a plain number: handled by constant folding
        out = Rat.const(rc)
        for pl, m in fn_[1]:
            out = out * alg.fn("abs", Rat(pl)).pow(m // 2)
        for pl, m in fd_[1]:
            out = out / alg.fn("abs", Rat(pl)).pow(m // 2)
        return out

    alg = Algebra(lambda r: rat_sign(r, lf, alg), root)
    return alg


def term_interval(t: Term, ev: OrderEval, alg) -> Interval | None:  # type: ignore[no-untyped-def]
    """Interval of a term's value at the order type, evaluated on the term as written (tighter than on the expanded polynomial)."""
    lf = ev.lf

    def go(t: Term) -> Interval | None:
        u = unwrap(t)
        if u in lf.val:
            return atom_interval(u, lf, alg)
        k = u[0]
        if k == "const" and isinstance(u[1], (int, float)) and not isinstance(u[1], bool) and u[1] == u[1] and abs(u[1]) != INF:
            return Interval.point(Fraction(u[1]))
        if k == "unop" and u[1] == "-":
            a = go(u[2])
            return a.scale(Fraction(-1)) if a is not None else None
        if k == "binop" and u[1] in ("+", "-", "*", "/", "**"):
            a = go(u[2])
            if a is None:
                return None
            if u[1] == "**":
                e = unwrap(u[3])
                if e[0] == "const" and isinstance(e[1], (int, float)) and float(e[1]).is_integer() and 0 <= e[1] <= 8:
                    return a.power(int(e[1]))
                return None
            b = go(u[3])
            if b is None:
                return None
            if u[1] == "+":
                return a + b
            if u[1] == "-":
                return a + b.scale(Fraction(-1))
            if u[1] == "*":
                return a * b
            sb = b.sign()
            if sb not in (POS, NEG) or b.lo in (INF, -INF) or b.hi in (INF, -INF) or b.lo == 0 or b.hi == 0:
                return None
            inv = Interval(Fraction(1) / b.hi, Fraction(1) / b.lo, b.hi_open, b.lo_open)
            return a * inv
        if k == "call" and u[1][0] == "global":
            short = u[1][1].split(".")[-1]
            args = u[2]
            if short == "where" and len(args) == 3:
                c = ev.ev(args[0])
                if is_bool(c) and len(c) == 1:
                    return go(args[1] if True in c else args[2])
                return None
            if short == "square" and args:
                a = go(args[0])
                return a.power(2) if a is not None else None
            if short == "sqrt" and args:
                a = go(args[0])
                if a is None or a.lo < 0:
                    return None
                import math

                def rt(v: Any, up: bool) -> Any:
                    if v == INF:
                        return INF
                    v = Fraction(v)
                    scale = 10 ** 6
                    f_ = Fraction(math.isqrt(v.numerator * scale * scale // v.denominator), scale)
                    if f_ * f_ == v:
                        return f_
                    return f_ + Fraction(1, scale) if up else f_

                lo, hi = rt(a.lo, False), rt(a.hi, True)
                return Interval(lo, hi, a.lo_open and lo * lo == a.lo, a.hi_open and hi != INF and hi * hi == a.hi)
            if short in ("min", "max", "minimum", "maximum") and len(args) == 2:
                a, b = go(args[0]), go(args[1])
                if a is None or b is None:
                    return None
                pick = min if short in ("min", "minimum") else max
                lo, hi = pick(a.lo, b.lo), pick(a.hi, b.hi)
                return Interval(lo, hi, (a.lo_open if lo == a.lo else b.lo_open), (a.hi_open if hi == a.hi else b.hi_open))
            if short in ("full_like", "full") and len(args) >= 2:
                return go(args[1])
            if short in ("abs", "absolute", "fabs") and args:
                a = go(args[0])
                if a is None:
                    return None
                if a.lo >= 0:
                    return a
                if a.hi <= 0:
                    return a.scale(Fraction(-1))
                return Interval(Fraction(0), max(-a.lo, a.hi))
        return None

    try:
        return go(t)
    except (TypeError, ZeroDivisionError, OverflowError):
        return None
