"""Per-function control-flow graph, dominance, control dependence, reaching definitions.

Statement kinds handled are the ones the analysed package uses; an unknown statement kind
raises AnalysisError (fail closed) instead of being skipped.
"""

from __future__ import annotations

import ast
from dataclasses import dataclass, field

from .pm import AnalysisError, FunctionInfo, dotted, unparse


@dataclass(eq=False)
class Node:
    id: int
    kind: str  # entry | exit | raise_exit | stmt | test | iter | for | with | handler | join
    ast: ast.AST | None = None
    stmt: ast.stmt | None = None
    succ: list[tuple["Node", str]] = field(default_factory=list)
    pred: list[tuple["Node", str]] = field(default_factory=list)
    copy: str = ""  # 'exc' / 'ret' for duplicated finally bodies

    @property
    def lineno(self) -> int:
        n = self.ast if self.ast is not None and hasattr(self.ast, "lineno") else self.stmt
        return getattr(n, "lineno", 0)

    def __repr__(self) -> str:
        return f"<{self.id}:{self.kind}@{self.lineno} {unparse(self.ast)[:40] if self.ast is not None else ''}>"


@dataclass(frozen=True)
class Def:
    name: str
    node: Node
    kind: str  # param | value | unpack | aug | iter | with | handler | import | def | walrus
    value: ast.AST | None = None
    path: tuple[int, ...] = ()  # position inside a tuple target
    target: ast.AST | None = None

    def __repr__(self) -> str:
        return f"<def {self.name}@{self.node.lineno}:{self.kind}>"


class _Ctx:
    def __init__(self) -> None:
        self.loops: list[tuple[Node, Node]] = []  # (continue target, break target)
        self.handlers: list[list[Node]] = []  # innermost last: nodes an exception may transfer to
        self.finallies: list[ast.Try] = []


def _bound_names(target: ast.AST) -> set[str]:
    return {n.id for n in ast.walk(target) if isinstance(n, ast.Name)}


class _UseCollector(ast.NodeVisitor):
    """Name loads in an expression, excluding names bound by comprehensions/lambdas inside it."""

    def __init__(self) -> None:
        self.uses: list[ast.Name] = []
        self.bound: list[set[str]] = []

    def visit_Name(self, node: ast.Name) -> None:
        if isinstance(node.ctx, ast.Load) and not any(node.id in b for b in self.bound):
            self.uses.append(node)

    def _comp(self, node: ast.AST, elts: list[ast.AST]) -> None:
        bound: set[str] = set()
        self.bound.append(bound)
        for gen in node.generators:  # type: ignore[attr-defined]
            self.visit(gen.iter)
            bound |= _bound_names(gen.target)
            for c in gen.ifs:
                self.visit(c)
        for e in elts:
            self.visit(e)
        self.bound.pop()

    def visit_ListComp(self, node: ast.ListComp) -> None:
        self._comp(node, [node.elt])

    visit_SetComp = visit_ListComp  # type: ignore[assignment]
    visit_GeneratorExp = visit_ListComp  # type: ignore[assignment]

    def visit_DictComp(self, node: ast.DictComp) -> None:
        self._comp(node, [node.key, node.value])

    def visit_Lambda(self, node: ast.Lambda) -> None:
        a = node.args
        bound = {x.arg for x in a.posonlyargs + a.args + a.kwonlyargs}
        if a.vararg:
            bound.add(a.vararg.arg)
        if a.kwarg:
            bound.add(a.kwarg.arg)
        self.bound.append(bound)
        self.visit(node.body)
        self.bound.pop()


def name_uses(expr: ast.AST | None) -> list[ast.Name]:
    if expr is None:
        return []
    c = _UseCollector()
    c.visit(expr)
    return c.uses


class CFG:
    def __init__(self, fn: FunctionInfo):
        self.fn = fn
        self.nodes: list[Node] = []
        self.entry = self._new("entry")
        self.exit = self._new("exit")
        self.raise_exit = self._new("raise_exit")
        self.by_ast: dict[int, list[Node]] = {}
        ctx = _Ctx()
        last = self._block(fn.body, [self.entry], ctx)
        self._connect(last, self.exit)
        self._prune()
        self._dom: dict[Node, Node | None] | None = None
        self._pdom: dict[Node, Node | None] | None = None
        self._rd: dict[Node, dict[str, frozenset[Def]]] | None = None
        self._defs: dict[Node, list[Def]] | None = None
        self._cdeps: dict[Node, set[tuple[Node, str]]] | None = None

    # ------------------------------------------------------------ construction
    def _new(self, kind: str, a: ast.AST | None = None, stmt: ast.stmt | None = None) -> Node:
        n = Node(len(self.nodes), kind, a, stmt)
        self.nodes.append(n)
        if a is not None:
            self.by_ast.setdefault(id(a), []).append(n)
        if stmt is not None and stmt is not a:
            self.by_ast.setdefault(id(stmt), []).append(n)
        return n

    def _edge(self, a: Node, b: Node, label: str) -> None:
        if (b, label) not in a.succ:
            a.succ.append((b, label))
            b.pred.append((a, label))

    def _connect(self, preds: list, node: Node) -> None:
        for p in preds:
            if isinstance(p, tuple):
                self._edge(p[0], node, p[1])
            else:
                self._edge(p, node, "")

    def _exc_targets(self, ctx: _Ctx) -> list[Node]:
        return ctx.handlers[-1] if ctx.handlers else [self.raise_exit]

    def _may_raise_to_handlers(self, node: Node, ctx: _Ctx) -> None:
        if ctx.handlers:
            for h in ctx.handlers[-1]:
                self._edge(node, h, "exc")

    def _block(self, stmts: list[ast.stmt], preds: list, ctx: _Ctx) -> list:
        cur = preds
        for s in stmts:
            cur = self._stmt(s, cur, ctx)
        return cur

    def _stmt(self, s: ast.stmt, preds: list, ctx: _Ctx) -> list:
        if isinstance(s, (ast.Assign, ast.AugAssign, ast.AnnAssign, ast.Expr, ast.Pass, ast.Import, ast.ImportFrom,
                          ast.Delete, ast.Global, ast.Nonlocal, ast.FunctionDef, ast.ClassDef, ast.Assert)):
            n = self._new("stmt", s, s)
            self._connect(preds, n)
            self._may_raise_to_handlers(n, ctx)
            return [n]
        if isinstance(s, ast.Return):
            n = self._new("stmt", s, s)
            self._connect(preds, n)
            self._may_raise_to_handlers(n, ctx)
            cur: list = [n]
            for t in reversed(ctx.finallies):
                cur = self._block(t.finalbody, cur, self._outer_ctx(ctx, t))
                for c in cur:
                    if isinstance(c, Node):
                        c.copy = c.copy or "ret"
            for c in cur:
                self._connect([c], self.exit)
            return []
        if isinstance(s, ast.Raise):
            n = self._new("stmt", s, s)
            self._connect(preds, n)
            for t in self._exc_targets(ctx):
                self._edge(n, t, "exc")
            return []
        if isinstance(s, ast.If):
            t = self._new("test", s.test, s)
            self._connect(preds, t)
            self._may_raise_to_handlers(t, ctx)
            a = self._block(s.body, [(t, "true")], ctx)
            b = self._block(s.orelse, [(t, "false")], ctx) if s.orelse else [(t, "false")]
            return a + b
        if isinstance(s, ast.While):
            t = self._new("test", s.test, s)
            self._connect(preds, t)
            self._may_raise_to_handlers(t, ctx)
            after = self._new("join", None, s)
            ctx.loops.append((t, after))
            body = self._block(s.body, [(t, "true")], ctx)
            ctx.loops.pop()
            self._connect(body, t)
            orelse = self._block(s.orelse, [(t, "false")], ctx) if s.orelse else [(t, "false")]
            self._connect(orelse, after)
            return [after]
        if isinstance(s, ast.For):
            it = self._new("iter", s.iter, s)
            self._connect(preds, it)
            self._may_raise_to_handlers(it, ctx)
            head = self._new("for", s, s)
            self._edge(it, head, "")
            self._may_raise_to_handlers(head, ctx)
            after = self._new("join", None, s)
            ctx.loops.append((head, after))
            body = self._block(s.body, [(head, "iter")], ctx)
            ctx.loops.pop()
            self._connect(body, head)
            orelse = self._block(s.orelse, [(head, "done")], ctx) if s.orelse else [(head, "done")]
            self._connect(orelse, after)
            return [after]
        if isinstance(s, ast.Continue):
            n = self._new("stmt", s, s)
            self._connect(preds, n)
            if not ctx.loops:
                raise AnalysisError(f"continue outside loop in {self.fn.qualname}")
            self._edge(n, ctx.loops[-1][0], "")
            return []
        if isinstance(s, ast.Break):
            n = self._new("stmt", s, s)
            self._connect(preds, n)
            if not ctx.loops:
                raise AnalysisError(f"break outside loop in {self.fn.qualname}")
            self._edge(n, ctx.loops[-1][1], "")
            return []
        if isinstance(s, ast.With):
            w = self._new("with", s, s)
            self._connect(preds, w)
            self._may_raise_to_handlers(w, ctx)
            suppress = any(
                isinstance(i.context_expr, ast.Call) and (dotted(i.context_expr.func) or "").endswith("suppress")
                for i in s.items
            )
            if suppress:
                after = self._new("join", None, s)
                ctx.handlers.append([after] + (self._exc_targets(ctx)))
                body = self._block(s.body, [w], ctx)
                ctx.handlers.pop()
                self._connect(body, after)
                return [after]
            return self._block(s.body, [w], ctx)
        if isinstance(s, ast.Try):
            return self._try(s, preds, ctx)
        raise AnalysisError(f"unsupported statement {type(s).__name__} at {self.fn.loc(s)} in {self.fn.qualname}")

    def _outer_ctx(self, ctx: _Ctx, t: ast.Try) -> _Ctx:
        """Context outside try statement `t` (for its finally body)."""
        o = _Ctx()
        o.loops = list(ctx.loops)
        i = ctx.finallies.index(t)
        o.finallies = ctx.finallies[:i]
        o.handlers = list(getattr(t, "_outer_handlers"))
        return o

    def _try(self, s: ast.Try, preds: list, ctx: _Ctx) -> list:
        s._outer_handlers = list(ctx.handlers)  # type: ignore[attr-defined]
        handler_nodes = [self._new("handler", h, s) for h in s.handlers]
        catch_all = any(
            h.type is None or (dotted(h.type) or "") in ("Exception", "BaseException") for h in s.handlers
        )
        exc_fin_entry: Node | None = None
        targets: list[Node] = list(handler_nodes)
        if s.finalbody and not catch_all:
            exc_fin_entry = self._new("join", None, s)
            exc_fin_entry.copy = "exc"
            targets.append(exc_fin_entry)
        elif not catch_all:
            targets += self._exc_targets(ctx)
        # try body
        ctx.handlers.append(targets)
        if s.finalbody:
            ctx.finallies.append(s)
        body = self._block(s.body, preds, ctx)
        ctx.handlers.pop()
        # else body: exceptions there are not caught by this try's handlers
        if s.finalbody and exc_fin_entry is None:
            exc_fin_entry = self._new("join", None, s)
            exc_fin_entry.copy = "exc"
        if s.finalbody:
            ctx.handlers.append([exc_fin_entry])  # type: ignore[list-item]
        body = self._block(s.orelse, body, ctx) if s.orelse else body
        ends = list(body)
        for hn, h in zip(handler_nodes, s.handlers):
            ends += self._block(h.body, [hn], ctx)
        if s.finalbody:
            ctx.handlers.pop()
            ctx.finallies.pop()
            # normal copy
            normal = self._block(s.finalbody, ends, ctx) if ends else []
            # exceptional copy: runs the finally body and re-raises outward
            if exc_fin_entry is not None and exc_fin_entry.pred:
                before = len(self.nodes)
                exc_end = self._block(s.finalbody, [exc_fin_entry], ctx)
                for n in self.nodes[before:]:
                    n.copy = n.copy or "exc"
                for e in exc_end:
                    for t in self._exc_targets(ctx):
                        self._connect([e], t)
                        # label the re-raise edge
                        src = e[0] if isinstance(e, tuple) else e
                        src.succ = [(x, "exc" if x is t else l) for x, l in src.succ]
                        t.pred = [(x, "exc" if x is src else l) for x, l in t.pred]
            return normal
        return ends

    def _prune(self) -> None:
        """Drop nodes unreachable from entry (e.g. code after return)."""
        seen = {self.entry}
        work = [self.entry]
        while work:
            n = work.pop()
            for s, _ in n.succ:
                if s not in seen:
                    seen.add(s)
                    work.append(s)
        for n in self.nodes:
            if n not in seen:
                for s, l in n.succ:
                    s.pred = [(p, pl) for p, pl in s.pred if p is not n]
                n.succ = []
        self.reachable = seen

    # ------------------------------------------------------------ lookup helpers
    def nodes_of(self, a: ast.AST, copies: bool = False) -> list[Node]:
        out = [n for n in self.by_ast.get(id(a), []) if n in self.reachable]
        if not copies:
            prim = [n for n in out if not n.copy]
            out = prim or out
        return out

    def node_of(self, a: ast.AST) -> Node:
        ns = self.nodes_of(a)
        if not ns:
            raise AnalysisError(f"no CFG node for {unparse(a)[:60]} in {self.fn.qualname}")
        return ns[0]

    def stmt_nodes(self) -> list[Node]:
        return [n for n in self.nodes if n in self.reachable and n.kind not in ("entry", "exit", "raise_exit", "join")]

    def exprs_of(self, n: Node) -> list[ast.AST]:
        """Expressions evaluated at node n."""
        a = n.ast
        if n.kind in ("test", "iter"):
            return [a]  # type: ignore[list-item]
        if n.kind == "for":
            return []
        if n.kind == "with":
            return [i.context_expr for i in a.items]  # type: ignore[union-attr]
        if n.kind == "handler":
            return [a.type] if a.type is not None else []  # type: ignore[union-attr]
        if n.kind != "stmt":
            return []
        if isinstance(a, ast.Assign):
            return [a.value] + [t for t in a.targets if not isinstance(t, ast.Name)]
        if isinstance(a, ast.AugAssign):
            return [a.value, a.target]
        if isinstance(a, ast.AnnAssign):
            return ([a.value] if a.value is not None else []) + ([a.target] if not isinstance(a.target, ast.Name) else [])
        if isinstance(a, (ast.Expr, ast.Return)):
            return [a.value] if a.value is not None else []
        if isinstance(a, ast.Raise):
            return [x for x in (a.exc, a.cause) if x is not None]
        if isinstance(a, ast.Assert):
            return [x for x in (a.test, a.msg) if x is not None]
        if isinstance(a, ast.Delete):
            return list(a.targets)
        return []

    def calls_in(self, n: Node) -> list[ast.Call]:
        out: list[ast.Call] = []
        for e in self.exprs_of(n):
            out += [c for c in ast.walk(e) if isinstance(c, ast.Call)]
        return out

    def all_calls(self) -> list[tuple[Node, ast.Call]]:
        out = []
        for n in self.stmt_nodes():
            if n.copy:
                continue
            for c in self.calls_in(n):
                out.append((n, c))
        return out

    def find_calls(self, suffix: str) -> list[tuple[Node, ast.Call]]:
        """Calls whose dotted callee ends with `suffix` (e.g. '.trigger', 'heapq.heappush')."""
        out = []
        for n, c in self.all_calls():
            d = dotted(c.func)
            if d is None and isinstance(c.func, ast.Attribute):
                d = "?." + c.func.attr
            if d and (d == suffix.lstrip(".") or d.endswith(suffix)):
                out.append((n, c))
        return out

    # ------------------------------------------------------------ graph algorithms
    def reach(self, start: list[Node], blocked: set[Node] = frozenset(), backward: bool = False,  # type: ignore[assignment]
              skip_labels: tuple[str, ...] = ()) -> set[Node]:
        seen: set[Node] = set()
        work = [s for s in start if s not in blocked]
        seen.update(work)
        while work:
            n = work.pop()
            for s, l in (n.pred if backward else n.succ):
                if l in skip_labels:
                    continue
                if s not in seen and s not in blocked:
                    seen.add(s)
                    work.append(s)
        return seen

    def must_precede(self, guards: list[Node], target: Node) -> bool:
        """Every entry->target path passes through one of `guards` (target itself excluded)."""
        if target in guards:
            return True
        return target not in self.reach([self.entry], blocked=set(guards))

    def must_follow(self, source: Node, posts: list[Node], to: Node | None = None) -> bool:
        """Every path from `source` to the normal exit passes through one of `posts`."""
        to = to or self.exit
        r = set()
        for s, _ in source.succ:
            r |= self.reach([s], blocked=set(posts))
        return to not in r

    @staticmethod
    def _idom_generic(start: Node, succ: dict[Node, list[Node]], pred: dict[Node, list[Node]]) -> dict[Node, Node | None]:
        order: list[Node] = []
        seen = {start}
        stack = [(start, iter(succ.get(start, ())))]
        while stack:
            n, it = stack[-1]
            for s in it:
                if s not in seen:
                    seen.add(s)
                    stack.append((s, iter(succ.get(s, ()))))
                    break
            else:
                order.append(n)
                stack.pop()
        rpo = list(reversed(order))
        idx = {n: i for i, n in enumerate(rpo)}
        idom: dict[Node, Node | None] = {start: start}
        changed = True

        def inter(a: Node, b: Node) -> Node:
            while a is not b:
                while idx[a] > idx[b]:
                    a = idom[a]  # type: ignore[assignment]
                while idx[b] > idx[a]:
                    b = idom[b]  # type: ignore[assignment]
            return a

        while changed:
            changed = False
            for n in rpo[1:]:
                preds = [p for p in pred.get(n, ()) if p in idom and p in idx]
                if not preds:
                    continue
                new = preds[0]
                for p in preds[1:]:
                    new = inter(p, new)
                if idom.get(n) is not new:
                    idom[n] = new
                    changed = True
        idom[start] = None
        return idom

    def dominators(self) -> dict[Node, Node | None]:
        if self._dom is None:
            succ = {n: [s for s, _ in n.succ] for n in self.nodes}
            pred = {n: [p for p, _ in n.pred] for n in self.nodes}
            self._dom = self._idom_generic(self.entry, succ, pred)
        return self._dom

    def dominates(self, a: Node, b: Node) -> bool:
        d = self.dominators()
        cur: Node | None = b
        while cur is not None:
            if cur is a:
                return True
            cur = d.get(cur)
        return False

    def is_back_edge(self, a: Node, b: Node) -> bool:
        return self.dominates(b, a) and (b.kind == "for" or (b.kind == "test" and isinstance(b.stmt, ast.While)))

    def acyclic_edges(self) -> list[tuple[Node, Node, str]]:
        """Edges of the CFG with every loop back edge a->head redirected to the loop's exit successors.

        On this graph a path is one iteration of each loop, which is what path conditions
        ("under which decisions does this statement execute in an iteration") need.
        """
        out: list[tuple[Node, Node, str]] = []
        for a in self.nodes:
            if a not in self.reachable:
                continue
            for b, label in a.succ:
                if self.is_back_edge(a, b):
                    for x, xl in b.succ:
                        if xl in ("done", "false"):
                            out.append((a, x, label))
                else:
                    out.append((a, b, label))
        return out

    def postdominators(self) -> dict[Node, Node | None]:
        """Post-dominators on the acyclic graph, w.r.t. a virtual sink joining normal and exceptional exit."""
        if self._pdom is None:
            sink = Node(-1, "sink")
            edges = self.acyclic_edges() + [(self.exit, sink, ""), (self.raise_exit, sink, "")]
            succ: dict[Node, list[Node]] = {}
            pred: dict[Node, list[Node]] = {}
            for a, b, _ in edges:
                succ.setdefault(a, []).append(b)
                pred.setdefault(b, []).append(a)
            # post-dominance = dominance on the reversed graph
            self._pdom = self._idom_generic(sink, pred, succ)
            self._sink = sink
        return self._pdom

    def postdominates(self, a: Node, b: Node) -> bool:
        d = self.postdominators()
        cur: Node | None = b
        while cur is not None:
            if cur is a:
                return True
            cur = d.get(cur)
        return False

    def control_deps(self) -> dict[Node, set[tuple[Node, str]]]:
        """Direct control dependences (per iteration): node -> {(branch node, edge label)}."""
        if self._cdeps is None:
            pd = self.postdominators()
            cd: dict[Node, set[tuple[Node, str]]] = {n: set() for n in self.nodes}
            out_edges: dict[Node, list[tuple[Node, str]]] = {}
            for a, b, label in self.acyclic_edges():
                out_edges.setdefault(a, []).append((b, label))
            for a, succs in out_edges.items():
                if len({id(s) for s, _ in succs}) < 2:
                    continue
                stop = pd.get(a)
                for b, label in succs:
                    cur: Node | None = b
                    while cur is not None and cur is not stop and cur.id != -1:
                        cd[cur].add((a, label))
                        cur = pd.get(cur)
            self._cdeps = cd
        return self._cdeps

    def path_condition(self, n: Node, include_exc: bool = False) -> set[tuple[Node, str]]:
        """Transitive control dependences of n: the branch decisions under which n executes."""
        cd = self.control_deps()
        out: set[tuple[Node, str]] = set()
        work = [n]
        seen = {n}
        while work:
            cur = work.pop()
            for t, label in cd.get(cur, ()):
                if label == "exc" and not include_exc:
                    continue
                if (t, label) not in out:
                    out.add((t, label))
                if t not in seen:
                    seen.add(t)
                    work.append(t)
        return out

    def guards_of(self, n: Node) -> list[tuple[ast.AST, bool]]:
        """Path condition restricted to `if`/`while` tests: [(test expr, polarity)] in source order."""
        out = []
        for t, label in self.path_condition(n):
            if t.kind == "test" and label in ("true", "false"):
                out.append((t.ast, label == "true", t))
        out.sort(key=lambda x: (x[2].lineno, x[2].id))
        return [(a, p) for a, p, _ in out]  # type: ignore[misc]

    def must_guards(self, n: Node) -> list[tuple[ast.AST, bool, Node]]:
        """Branch decisions that every entry->n path takes: [(test expr, polarity, test node)].

        A decision (t, label) is a must-guard of n iff n becomes unreachable from the entry once the
        `label` edges of t are removed. Unlike control dependence this is insensitive to how the
        guard is written (nested `if`, early `continue`/`return`/`raise`).
        """
        out = []
        for t in self.nodes:
            if t not in self.reachable or t.kind != "test" or t is n or not self.dominates(t, n):
                continue
            for label in ("true", "false"):
                targets = [s for s, l in t.succ if l == label]
                if not targets:
                    continue
                # reachability with the labelled edges of t removed
                seen = {self.entry}
                work = [self.entry]
                while work:
                    cur = work.pop()
                    for s, l in cur.succ:
                        if cur is t and l == label:
                            continue
                        if s not in seen:
                            seen.add(s)
                            work.append(s)
                if n not in seen:
                    out.append((t.ast, label == "true", t))
        out.sort(key=lambda x: (x[2].lineno, x[2].id))
        return out

    # ------------------------------------------------------------ loops
    def loop_body(self, head: Node) -> set[Node]:
        """Nodes of the natural loop(s) with header `head` (excluding head)."""
        body: set[Node] = set()
        for p, _ in head.pred:
            if self.dominates(head, p):
                # natural loop of back edge p->head
                work = [p]
                seen = {head, p}
                while work:
                    n = work.pop()
                    for q, _ in n.pred:
                        if q not in seen:
                            seen.add(q)
                            work.append(q)
                body |= seen
        body.discard(head)
        return body

    def lexical_body(self, head: Node) -> set[Node]:
        """Nodes whose statement is written inside the loop statement of `head` (includes raise/break/return exits,
        which the natural loop excludes)."""
        inside: set[int] = set()
        for s in head.stmt.body + getattr(head.stmt, "orelse", []):  # type: ignore[union-attr]
            for x in ast.walk(s):
                inside.add(id(x))
        return {n for n in self.nodes if n in self.reachable and n is not head and
                ((n.stmt is not None and id(n.stmt) in inside) or (n.ast is not None and id(n.ast) in inside))}

    def loop_heads(self) -> list[Node]:
        return [n for n in self.nodes if n in self.reachable and (n.kind == "for" or (n.kind == "test" and isinstance(n.stmt, ast.While)))]

    def enclosing_loops(self, n: Node) -> list[Node]:
        cache = self.__dict__.setdefault("_loop_cache", None)
        if cache is None:
            cache = {h: self.loop_body(h) for h in self.loop_heads()}
            self.__dict__["_loop_cache"] = cache
        return [h for h, body in cache.items() if n in body]

    # ------------------------------------------------------------ definitions / reaching definitions
    def defs_at(self, n: Node) -> list[Def]:
        if self._defs is None:
            self._defs = {m: self._compute_defs(m) for m in self.nodes}
        return self._defs[n]

    def _target_defs(self, n: Node, target: ast.AST, value: ast.AST | None, kind: str, path: tuple[int, ...] = ()) -> list[Def]:
        if isinstance(target, ast.Name):
            return [Def(target.id, n, kind if not path else ("unpack" if kind == "value" else kind), value, path, target)]
        if isinstance(target, (ast.Tuple, ast.List)):
            out: list[Def] = []
            for i, e in enumerate(target.elts):
                out += self._target_defs(n, e, value, kind, path + (i,))
            return out
        if isinstance(target, ast.Starred):
            return self._target_defs(n, target.value, value, kind, path + (-1,))
        return []  # attribute / subscript stores are effects, not local defs

    def _compute_defs(self, n: Node) -> list[Def]:
        out: list[Def] = []
        a = n.ast
        if n.kind == "entry":
            for p in self.fn.params:
                out.append(Def(p.name, n, "param"))
            return out
        if n.kind == "for":
            out += self._target_defs(n, a.target, a.iter, "iter")  # type: ignore[union-attr]
            return out
        if n.kind == "with":
            for i in a.items:  # type: ignore[union-attr]
                if i.optional_vars is not None:
                    out += self._target_defs(n, i.optional_vars, i.context_expr, "with")
        if n.kind == "handler":
            if a.name:  # type: ignore[union-attr]
                out.append(Def(a.name, n, "handler", a.type))  # type: ignore[union-attr]
            return out
        if n.kind == "stmt":
            if isinstance(a, ast.Assign):
                for t in a.targets:
                    out += self._target_defs(n, t, a.value, "value")
            elif isinstance(a, ast.AugAssign):
                if isinstance(a.target, ast.Name):
                    out.append(Def(a.target.id, n, "aug", a.value, (), a.target))
            elif isinstance(a, ast.AnnAssign):
                if a.value is not None:
                    out += self._target_defs(n, a.target, a.value, "value")
            elif isinstance(a, (ast.Import, ast.ImportFrom)):
                for al in a.names:
                    out.append(Def((al.asname or al.name).split(".")[0], n, "import"))
            elif isinstance(a, (ast.FunctionDef, ast.ClassDef)):
                out.append(Def(a.name, n, "def"))
        # walrus anywhere in the node's expressions
        for e in self.exprs_of(n):
            for w in ast.walk(e):
                if isinstance(w, ast.NamedExpr) and isinstance(w.target, ast.Name):
                    out.append(Def(w.target.id, n, "walrus", w.value, (), w.target))
        return out

    def uses_at(self, n: Node) -> list[ast.Name]:
        out: list[ast.Name] = []
        for e in self.exprs_of(n):
            out += name_uses(e)
        if n.kind == "stmt" and isinstance(n.ast, ast.AugAssign) and isinstance(n.ast.target, ast.Name):
            out.append(n.ast.target)
        return out

    def reaching(self) -> dict[Node, dict[str, frozenset[Def]]]:
        """IN sets of reaching definitions per node."""
        if self._rd is not None:
            return self._rd
        IN: dict[Node, dict[str, frozenset[Def]]] = {n: {} for n in self.nodes}
        OUT: dict[Node, dict[str, frozenset[Def]]] = {n: {} for n in self.nodes}
        work = [n for n in self.nodes if n in self.reachable]
        inwork = set(work)
        while work:
            n = work.pop(0)
            inwork.discard(n)
            new_in: dict[str, set[Def]] = {}
            for p, _ in n.pred:
                for k, v in OUT[p].items():
                    new_in.setdefault(k, set()).update(v)
            fin = {k: frozenset(v) for k, v in new_in.items()}
            IN[n] = fin
            out = dict(fin)
            dl = self.defs_at(n)
            byname: dict[str, set[Def]] = {}
            for d in dl:
                byname.setdefault(d.name, set()).add(d)
            for k, v in byname.items():
                out[k] = frozenset(v)
            if n.kind == "stmt" and isinstance(n.ast, ast.Delete):
                for t in n.ast.targets:
                    if isinstance(t, ast.Name):
                        out.pop(t.id, None)
            if out != OUT[n]:
                OUT[n] = out
                for s, _ in n.succ:
                    if s not in inwork:
                        inwork.add(s)
                        work.append(s)
        self._rd = IN
        self._rd_out = OUT
        return IN

    def defs_reaching(self, name: str, n: Node) -> frozenset[Def]:
        return self.reaching()[n].get(name, frozenset())

    def carried_uses(self, head: Node) -> list[tuple[str, Node, Def]]:
        """Uses inside the loop of `head` that read a value defined in a *previous iteration*.

        Returns (name, using node, defining Def). Computed by propagating the body definitions that
        reach the loop head over its back edges forward through one iteration (with kills).
        """
        body = self.loop_body(head)
        rd_in = self.reaching()[head]
        carried: dict[str, set[Def]] = {}
        for name, ds in rd_in.items():
            c = {d for d in ds if d.node in body}
            if c:
                carried[name] = c
        if not carried:
            return []
        # forward propagation within body, one pass from head
        state: dict[Node, dict[str, set[Def]]] = {head: {k: set(v) for k, v in carried.items()}}
        out: list[tuple[str, Node, Def]] = []
        seen_use: set[tuple[str, int, int]] = set()
        work = [head]
        while work:
            n = work.pop()
            cur = state[n]
            if n is not head or True:
                for u in self.uses_at(n) if n is not head else []:
                    for d in cur.get(u.id, ()):
                        key = (u.id, n.id, id(d))
                        if key not in seen_use:
                            seen_use.add(key)
                            out.append((u.id, n, d))
            nxt = {k: set(v) for k, v in cur.items()}
            for d in self.defs_at(n):
                if n is head and d.name in nxt:
                    nxt.pop(d.name)
                elif n is not head:
                    nxt.pop(d.name, None)
            for s, _ in n.succ:
                if s not in body:
                    continue
                old = state.get(s)
                if old is None:
                    state[s] = {k: set(v) for k, v in nxt.items()}
                    work.append(s)
                else:
                    grew = False
                    for k, v in nxt.items():
                        if not v <= old.get(k, set()):
                            old.setdefault(k, set()).update(v)
                            grew = True
                    if grew:
                        work.append(s)
        return out

    # ------------------------------------------------------------ effects (attribute / subscript stores)
    def stores_at(self, n: Node) -> list[ast.AST]:
        """Attribute/Subscript store targets at node n."""
        a = n.ast
        targets: list[ast.AST] = []
        if n.kind == "stmt":
            if isinstance(a, ast.Assign):
                targets = list(a.targets)
            elif isinstance(a, (ast.AugAssign, ast.AnnAssign)):
                targets = [a.target]
        elif n.kind == "for":
            targets = [a.target]  # type: ignore[union-attr]
        out: list[ast.AST] = []

        def walk(t: ast.AST) -> None:
            if isinstance(t, (ast.Attribute, ast.Subscript)):
                out.append(t)
            elif isinstance(t, (ast.Tuple, ast.List)):
                for e in t.elts:
                    walk(e)
            elif isinstance(t, ast.Starred):
                walk(t.value)

        for t in targets:
            walk(t)
        return out


def cfg_of(fn: FunctionInfo) -> CFG:
    c = getattr(fn, "_cfg", None)
    if c is None:
        c = CFG(fn)
        fn._cfg = c  # type: ignore[attr-defined]
    return c
