"""Canonical forms of numpy array expressions (resolved terms of sa.sym), so that rules compare computations and not spellings.

`canon(t)` rewrites a resolved term bottom-up:

  spelling          `a.sum(axis=1)` = `np.sum(a, 1)` = `np.sum(a, axis=1)`; np.absolute = np.abs = abs; np.amax = np.max; np.logical_and = &;
                    np.multiply(a, b) = a * b; np.greater(a, b) = a > b ...
  values, not       `keepdims=` is dropped and `squeeze` is the identity: they change the shape of a result, never its values (shapes are
  shapes            decided separately, by the shape lattice of sa.shape - rule V9)
  comparisons       `a < b` = `b > a`, `a <= b` = `b >= a`; the operands of == are sorted; `a != b` = not (a == b) (exact under IEEE-754;
                    `not (a > b)` is *not* rewritten to `a <= b`, which differs on NaN)
  masks             & | ~ become n-ary and / or / not in negation normal form with sorted operands (De Morgan holds for booleans and integers)
  where             `where(c, a, b)` = `where(not c, b, a)`: the polarity with fewer negations is kept
  arithmetic        + - * / unary minus and integer powers become a rational-function normal form (sa.algebra) over the other canonical
                    terms, so re-association, commuted operands, distributed products and named temporaries are immaterial
  last column       `a[:, [-1]]` = `a[:, -1:]` = `a[:, -1][:, None]` (up to shape)

Canonical terms are nested tuples, hashable and comparable with ==. The rewriting is a fixed set of identities of real / IEEE arithmetic on
arrays; anything it does not know is left as it is (so two spellings it cannot relate stay different - a rule built on it then says
"different", which for an equality rule means a report: the identities above are the ones the refactoring rounds produced).
"""

from __future__ import annotations

from fractions import Fraction
from typing import Any

from .algebra import Poly, Rat, Undefined
from .sym import Term

ARRAY_METHODS = {"sum", "min", "max", "mean", "cumsum", "squeeze", "std", "var", "prod", "any", "all", "argmin", "argmax", "clip", "round", "transpose",
                 "nansum", "cumprod", "ravel", "flatten", "copy", "astype"}
ALIASES = {"numpy.absolute": "numpy.abs", "abs": "numpy.abs", "numpy.fabs": "numpy.abs", "numpy.amax": "numpy.max", "numpy.amin": "numpy.min",
           "numpy.true_divide": "numpy.divide", "numpy.around": "numpy.round", "numpy.round_": "numpy.round", "numpy.bitwise_and": "numpy.logical_and",
           "numpy.bitwise_or": "numpy.logical_or", "numpy.invert": "numpy.logical_not", "numpy.bitwise_not": "numpy.logical_not", "numpy.NaN": "numpy.nan",
           "math.nan": "numpy.nan", "fuzzylite.library.nan": "numpy.nan", "fuzzylite.library.inf": "numpy.inf", "math.inf": "numpy.inf"}
BINARY_FUNCS = {"numpy.add": "+", "numpy.subtract": "-", "numpy.multiply": "*", "numpy.divide": "/", "numpy.logical_and": "&", "numpy.logical_or": "|",
                "numpy.power": "**", "numpy.float_power": "**"}
COMPARE_FUNCS = {"numpy.greater": ">", "numpy.greater_equal": ">=", "numpy.less": "<", "numpy.less_equal": "<=", "numpy.equal": "==", "numpy.not_equal": "!=",
                 "operator.gt": ">", "operator.ge": ">=", "operator.lt": "<", "operator.le": "<=", "operator.eq": "==", "operator.ne": "!="}
UNARY_FUNCS = {"numpy.negative": "-", "numpy.logical_not": "~", "numpy.positive": "+"}
VALUE_IDENTITIES = {"numpy.squeeze", "numpy.asarray", "numpy.asanyarray", "numpy.ascontiguousarray", "numpy.copy", "numpy.ravel"}
REDUCERS = {"sum", "nansum", "min", "max", "nanmin", "nanmax", "mean", "nanmean", "median", "nanmedian", "prod", "nanprod", "cumsum", "nancumsum", "cumprod",
            "std", "var", "any", "all", "argmin", "argmax", "nanargmin", "nanargmax"}


def _key(x: Any) -> str:
    return repr(x)


def _rat_of(t: Term) -> Rat | None:
    """The rational normal form of a canonical term (an atom unless it is arithmetic)."""
    if t[0] == "rat":
        return t[2]
    if t[0] == "const" and isinstance(t[1], (int, float)) and not isinstance(t[1], bool) and t[1] == t[1] and abs(t[1]) != float("inf"):
        return Rat.const(Fraction(t[1]).limit_denominator(10 ** 9))
    return Rat.sym(t)


class _RatTerm(tuple):
    """("rat", key, Rat): equality and hashing by the key only."""

    def __new__(cls, key: tuple, r: Rat) -> "_RatTerm":
        return super().__new__(cls, ("rat", key, r))

    def __eq__(self, o: object) -> bool:
        return isinstance(o, tuple) and len(o) == 3 and o[0] == "rat" and o[1] == self[1]

    def __ne__(self, o: object) -> bool:
        return not self.__eq__(o)

    def __hash__(self) -> int:
        return hash(("rat", self[1]))

    def __repr__(self) -> str:
        return f"('rat', {self[1]!r})"


def _poly_key(p: Poly, scale: Fraction) -> tuple:
    return tuple(sorted(((m, str(c / scale)) for m, c in p.t.items()), key=_key))


def _from_rat(r: Rat) -> Term:
    n, d = r.n, r.d
    if d.is_const() and d.const_value() == 1:
        if n.is_const():
            v = n.const_value() if not n.is_zero() else Fraction(0)
            return ("const", int(v) if v.denominator == 1 else float(v))
        if len(n.t) == 1:
            (mono, c), = n.t.items()
            if c == 1 and len(mono) == 1 and mono[0][1] == 1:
                return mono[0][0]  # a single atom
        return _RatTerm((_poly_key(n, Fraction(1)), ()), r)
    # make the pair unique up to a common polynomial factor: scale so that the first coefficient of the denominator is 1
    first = sorted(d.t.items(), key=_key)[0][1]
    return _RatTerm((_poly_key(n, first), _poly_key(d, first)), r)


def _nnf(t: Term, neg: bool = False) -> Term:
    """Negation normal form of a canonical mask."""
    if t[0] == "not":
        return _nnf(t[1], not neg)
    if t[0] in ("and", "or"):
        op = t[0] if not neg else ("or" if t[0] == "and" else "and")
        return _nary(op, [_nnf(x, neg) for x in t[1]])
    if t[0] == "const" and isinstance(t[1], bool):
        return ("const", (not t[1]) if neg else t[1])
    return ("not", t) if neg else t


def _nary(op: str, items: list[Term]) -> Term:
    flat: list[Term] = []
    for x in items:
        if x[0] == op:
            flat += list(x[1])
        else:
            flat.append(x)
    uniq = sorted(set(flat), key=_key)
    return uniq[0] if len(uniq) == 1 else (op, tuple(uniq))


def negations(t: Any) -> int:
    if isinstance(t, _RatTerm):
        return 0
    if isinstance(t, tuple):
        return (1 if t and t[0] == "not" else 0) + sum(negations(x) for x in t)
    return 0


def _is_last(i: Term) -> bool:
    return i == ("const", -1) or i == ("unop", "-", ("const", 1))


def _last_column(base: Term, idx: Term) -> Term | None:
    if idx[0] != "tuple" or len(idx[1]) != 2:
        return None
    rows, col = idx[1]
    if rows[0] != "slice" or any(x not in (("const", None), None) for x in rows[1:]):
        return None
    if _is_last(col) or (col[0] == "list" and len(col[1]) == 1 and _is_last(col[1][0])) or \
            (col[0] == "slice" and _is_last(col[1]) and col[2] in (("const", None), None) and col[3] in (("const", None), None)):
        return ("lastcol", base)
    if base[0] == "lastcol" and col == ("const", None):
        return base  # a[:, -1][:, None]
    return None


def canon(t: Any) -> Any:
    if isinstance(t, _RatTerm):
        return t
    if isinstance(t, frozenset):
        return frozenset(canon(x) for x in t)
    if not isinstance(t, tuple):
        return t
    if not t or not isinstance(t[0], str):
        return tuple(canon(x) for x in t)
    k = t[0]
    if k == "global":
        return ("global", ALIASES.get(t[1], t[1]))
    if k == "const":
        v = t[1]
        return ("const", int(v)) if isinstance(v, float) and v == v and abs(v) != float("inf") and v == int(v) else t
    if k == "param":
        return t
    if k == "binop":
        return _binary(t[1], canon(t[2]), canon(t[3]))
    if k == "unop":
        return _unary(t[1], canon(t[2]))
    if k == "cmp":
        ops, operands = t[1], [canon(x) for x in t[2]]
        parts = [_compare(op, operands[i], operands[i + 1]) for i, op in enumerate(ops)]
        return parts[0] if len(parts) == 1 else _nary("and", parts)
    if k == "bool":
        return ("bool", t[1], tuple(canon(x) for x in t[2]))
    if k == "sub":
        base, idx = canon(t[1]), canon(t[2])
        lc = _last_column(base, idx)
        return lc if lc is not None else ("sub", base, idx)
    if k == "call":
        return _call(t)
    return tuple(canon(x) if isinstance(x, tuple) else x for x in t)


def _binary(op: str, a: Term, b: Term) -> Term:
    if op in ("+", "-", "*", "/"):
        ra, rb = _rat_of(a), _rat_of(b)
        try:
            r = ra + rb if op == "+" else (ra - rb if op == "-" else (ra * rb if op == "*" else ra / rb))
        except Undefined:
            return ("binop", op, a, b)
        return _from_rat(r)
    if op == "**" and b[0] == "const" and isinstance(b[1], int) and not isinstance(b[1], bool) and abs(b[1]) <= 8:
        try:
            return _from_rat(_rat_of(a).pow(b[1]))
        except Undefined:
            return ("binop", op, a, b)
    if op in ("&", "|"):
        return _nnf(_nary("and" if op == "&" else "or", [a, b]))
    return ("binop", op, a, b)


def _unary(op: str, a: Term) -> Term:
    if op == "-":
        return _from_rat(-_rat_of(a))
    if op == "+":
        return a
    if op in ("~", "not"):
        return _nnf(a, True)
    return ("unop", op, a)


def _compare(op: str, a: Term, b: Term) -> Term:
    if op == "<":
        return ("cmp", ">", b, a)
    if op == "<=":
        return ("cmp", ">=", b, a)
    if op in ("==", "!="):
        x, y = sorted([a, b], key=_key)
        e = ("cmp", "==", x, y)
        return e if op == "==" else ("not", e)
    return ("cmp", op, a, b)


def _call(t: Term) -> Term:
    f, args, kwargs = t[1], tuple(canon(x) for x in t[2]), {k: canon(v) for k, v in t[3]}
    name: str | None = None
    if f[0] == "global":
        name = ALIASES.get(f[1], f[1])
    elif f[0] == "attr" and f[2] in ARRAY_METHODS and f[1][0] != "global":
        name = ALIASES.get("numpy." + f[2], "numpy." + f[2])
        args = (canon(f[1]),) + args
    if name is None:
        return ("call", canon(f), args, tuple(sorted(kwargs.items())))
    short = name.split(".")[-1]
    if name.startswith("numpy."):
        if name in VALUE_IDENTITIES and args:
            return args[0]
        if name in BINARY_FUNCS and len(args) == 2:
            return _binary(BINARY_FUNCS[name], args[0], args[1])
        if name in UNARY_FUNCS and len(args) == 1:
            return _unary(UNARY_FUNCS[name], args[0])
        if name == "numpy.square" and len(args) == 1:
            return _binary("**", args[0], ("const", 2))
        if short in REDUCERS and args:
            axis = kwargs.get("axis", args[1] if len(args) > 1 else None)
            extra = {k: v for k, v in kwargs.items() if k not in ("axis", "keepdims")}
            return ("reduce", short, args[0], axis, tuple(sorted(extra.items())))
        if short == "where" and len(args) == 3:
            c, a, b = _nnf(args[0]), args[1], args[2]
            n = _nnf(c, True)
            if (negations(n), _key(n)) < (negations(c), _key(c)):
                c, a, b = n, b, a
            return ("where", c, a, b)
    if name in COMPARE_FUNCS and len(args) == 2:
        return _compare(COMPARE_FUNCS[name], args[0], args[1])
    return ("call", ("global", name), args, tuple(sorted(kwargs.items())))


def show_canon(t: Any, depth: int = 0) -> str:
    """A compact rendering for reports."""
    from .sym import show

    if isinstance(t, _RatTerm):
        return t[2].show(lambda s: show_canon(s, depth + 1))
    if not isinstance(t, tuple) or not t or not isinstance(t[0], str):
        return str(t)
    k = t[0]
    if k == "reduce":
        return f"{t[1]}({show_canon(t[2], depth + 1)}, axis={show_canon(t[3]) if t[3] is not None else None})"
    if k == "where":
        return f"where({show_canon(t[1])}, {show_canon(t[2])}, {show_canon(t[3])})"
    if k in ("and", "or"):
        return "(" + (" & " if k == "and" else " | ").join(show_canon(x) for x in t[1]) + ")"
    if k == "not":
        return f"~{show_canon(t[1])}"
    if k == "cmp" and len(t) == 4:
        return f"({show_canon(t[2])} {t[1]} {show_canon(t[3])})"
    if k == "lastcol":
        return f"{show_canon(t[1])}[:, -1]"
    try:
        return show(t)
    except Exception:
        return repr(t)[:120]


def sort_commutative(t: Any) -> Any:
    """The weakest canonical form: the operands of commutative operators sorted, the term language of sa.sym unchanged (for consumers
    that go on interpreting the term)."""
    if isinstance(t, tuple) and t and isinstance(t[0], str):
        t = tuple(sort_commutative(x) for x in t)
        if t[0] == "binop" and t[1] in ("&", "|", "+", "*"):
            a, b = sorted([t[2], t[3]], key=repr)
            return ("binop", t[1], a, b)
        if t[0] == "cmp" and t[1] in (("==",), ("!=",)):
            return ("cmp", t[1], tuple(sorted(t[2], key=repr)))
        return t
    if isinstance(t, tuple):
        return tuple(sort_commutative(x) for x in t)
    if isinstance(t, frozenset):
        return frozenset(sort_commutative(x) for x in t)
    return t


def desugar(t: Any) -> Any:
    """The function spellings of numpy operators rewritten as the operators (np.less_equal(a, b) -> a <= b, np.logical_and -> &, np.multiply -> *,
    np.negative -> unary minus, np.square(a) -> a ** 2), in the term language of sa.sym: for consumers that interpret operators."""
    if isinstance(t, frozenset):
        return frozenset(desugar(x) for x in t)
    if not isinstance(t, tuple):
        return t
    t = tuple(desugar(x) for x in t)
    if t and t[0] == "call" and len(t) == 4 and isinstance(t[1], tuple) and t[1] and t[1][0] == "global":
        # np.interp(x=a, xp=b, fp=c) is np.interp(a, b, c)
        if t[1][1] == "numpy.interp" and t[3]:
            kw = dict(t[3])
            pos = list(t[2])
            for k in ("x", "xp", "fp")[len(pos):]:
                if k in kw:
                    pos.append(kw.pop(k))
                else:
                    break
            t = ("call", t[1], tuple(pos), tuple(sorted(kw.items())))
        # functools.reduce(operator.mul, (a, b, c)[, init]) is ((init *) a * b) * c
        if t[1][1] in ("functools.reduce", "reduce") and not t[3] and len(t[2]) in (2, 3) and t[2][0][0] == "global" and t[2][1][0] in ("tuple", "list"):
            op = {"operator.mul": "*", "operator.add": "+", "operator.sub": "-", "operator.truediv": "/", "operator.and_": "&", "operator.or_": "|"}.get(t[2][0][1])
            items = list(t[2][1][1]) if len(t[2][1]) == 2 and isinstance(t[2][1][1], tuple) and (not t[2][1][1] or isinstance(t[2][1][1][0], tuple)) else list(t[2][1][1:])
            if op is not None and items:
                acc = t[2][2] if len(t[2]) == 3 else items.pop(0)
                for x in items:
                    acc = ("binop", op, acc, x)
                return acc
    if t and t[0] == "call" and len(t) == 4 and isinstance(t[1], tuple) and t[1] and t[1][0] == "global" and not t[3]:
        name, args = ALIASES.get(t[1][1], t[1][1]), t[2]
        if name in COMPARE_FUNCS and len(args) == 2:
            return ("cmp", (COMPARE_FUNCS[name],), (args[0], args[1]))
        if name in BINARY_FUNCS and len(args) == 2 and BINARY_FUNCS[name] != "**":
            return ("binop", BINARY_FUNCS[name], args[0], args[1])
        if name in UNARY_FUNCS and len(args) == 1:
            return args[0] if UNARY_FUNCS[name] == "+" else ("unop", UNARY_FUNCS[name], args[0])
    return t
