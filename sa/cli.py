"""Command line: /verif/check <ID> [--tier quick|thorough] [--root DIR] [--replay FILE]."""

from __future__ import annotations

import argparse
import importlib
import json
import os
import sys
import traceback

from .pm import AnalysisError, Program
from .report import Check, finish

CLAIMED = ["C01", "C02", "C03", "C04", "C05", "C06", "C07", "C08", "C09", "C10", "C11", "C12", "C13", "C14", "C15", "C16", "C17",
           "C18", "C19", "C20"]


def rules_module(prop: str):
    return importlib.import_module(f"sa.rules.{prop.lower()}")


def run_property(prop: str, program: Program, tier: str = "quick") -> Check:
    mod = rules_module(prop)
    check = Check(prop, program, tier)
    check.explanation = getattr(mod, "EXPLANATION", "")
    check.assumptions = list(getattr(mod, "ASSUMPTIONS", []))
    try:
        mod.run(check)
    except AnalysisError as ex:
        # a definite violation established before the analysis got stuck stays a violation; without one the run is an analysis error
        check.incomplete = str(ex)
    return check


def main(argv: list[str] | None = None) -> int:
    ap = argparse.ArgumentParser(prog="check")
    ap.add_argument("prop")
    ap.add_argument("--tier", default=os.environ.get("VERIF_TIER") or "quick", choices=["quick", "thorough"])
    ap.add_argument("--root", default=os.environ.get("VERIF_ROOT") or "/repo")
    ap.add_argument("--replay", default=None)
    args = ap.parse_args(argv)
    prop = args.prop.upper()
    try:
        if prop not in CLAIMED:
            print(f"ANALYSIS-ERROR property={prop}: not a claimed property (see MANIFEST.json not_applicable)")
            return 2
        program = Program(args.root)
        check = run_property(prop, program, args.tier)
        mod = rules_module(prop)
        incomplete = getattr(check, "incomplete", None)
        if incomplete is not None:
            from .report import load_known

            known = {(k["property"], f"{k['rule']}/{k['construct']}") for k in load_known().get("known", [])}
            if not any(o.status == "violation" and (prop, o.key) not in known for o in check.obligations):
                raise AnalysisError(incomplete)
            print(f"ANALYSIS-INCOMPLETE property={prop}: {incomplete} (the violations below were established before that point)")
            check.notes.append(f"analysis incomplete: {incomplete}")
        selftest = None
        if args.tier == "thorough" and not args.replay:
            from . import selftest as st

            selftest = st.run_for(prop, args.root)
        if args.replay:
            with open(args.replay, encoding="utf-8") as f:
                rp = json.load(f)
            key = f"{rp['rule']}/{rp['construct']}"
            hits = [o for o in check.obligations if o.key == key]
            for o in hits:
                print(f"replay {key}: {o.status} at {o.loc}: {o.what}")
                print(json.dumps(o.facts, indent=1, default=str))
            if not hits:
                print(f"replay {key}: instance not found on this tree")
            return 1 if any(o.status == "violation" for o in hits) else 0
        return finish(check, getattr(mod, "FLOORS", {}), args.root, selftest)
    except AnalysisError as ex:
        print(f"ANALYSIS-ERROR property={prop}: {ex}")
        return 2
    except Exception:  # any traceback is an analysis failure, never a verdict
        traceback.print_exc()
        print(f"ANALYSIS-ERROR property={prop}: internal error in the analyser (traceback above)")
        return 2


if __name__ == "__main__":
    sys.exit(main())
