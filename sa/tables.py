"""Table extractors: turn registry code into data that rules compare with specification tables."""

from __future__ import annotations

import ast
from dataclasses import dataclass
from typing import Any

from .cfg import cfg_of
from .pm import AnalysisError, FunctionInfo, Program, dotted, unparse
from .sym import Resolver, Term, show


def const_eval(p: Program, fn: FunctionInfo, args: list[Any]) -> Any:
    """Evaluate a straight-line arithmetic helper (like FunctionFactory._precedence) on constant arguments."""
    env: dict[str, Any] = {}
    params = [x.name for x in fn.params if x.name != "self"]
    if len(params) != len(args):
        raise AnalysisError(f"cannot evaluate {fn.qualname} on {len(args)} argument(s)")
    env.update(zip(params, args))

    def ev(e: ast.AST) -> Any:
        if isinstance(e, ast.Constant) and isinstance(e.value, (int, float)):
            return e.value
        if isinstance(e, ast.Name) and e.id in env:
            return env[e.id]
        if isinstance(e, ast.UnaryOp) and isinstance(e.op, (ast.USub, ast.UAdd)):
            v = ev(e.operand)
            return -v if isinstance(e.op, ast.USub) else v
        if isinstance(e, ast.BinOp):
            a, b = ev(e.left), ev(e.right)
            if isinstance(e.op, ast.Add):
                return a + b
            if isinstance(e.op, ast.Sub):
                return a - b
            if isinstance(e.op, ast.Mult):
                return a * b
            if isinstance(e.op, ast.Div):
                return a / b
            if isinstance(e.op, ast.FloorDiv):
                return a // b
            if isinstance(e.op, ast.Pow):
                return a ** b
        raise AnalysisError(f"{fn.qualname}: cannot evaluate `{unparse(e)}` as constant arithmetic")

    for s in fn.body:
        if isinstance(s, ast.Assign) and len(s.targets) == 1 and isinstance(s.targets[0], ast.Name):
            env[s.targets[0].id] = ev(s.value)
        elif isinstance(s, ast.AnnAssign) and isinstance(s.target, ast.Name) and s.value is not None:
            env[s.target.id] = ev(s.value)
        elif isinstance(s, ast.Return) and s.value is not None:
            return ev(s.value)
        else:
            raise AnalysisError(f"{fn.qualname}: unsupported statement for constant evaluation at line {s.lineno}")
    raise AnalysisError(f"{fn.qualname}: no return")


@dataclass
class Element:
    name: str
    kind: str  # 'Operator' | 'Function'
    method: str  # canonical dotted name, or 'lambda: <expr>'
    method_term: Term
    arity: int
    precedence: float
    associativity: int
    lineno: int
    factory_fn: str


def _class_const(p: Program, t: Term) -> Any:
    """Value of a class-level string constant referenced as a global (fuzzylite.rule.Rule.AND -> 'and')."""
    if t[0] == "const":
        return t[1]
    if t[0] == "global":
        parts = t[1].split(".")
        if len(parts) >= 2 and parts[-2] in p.classes:
            v = p.classes[parts[-2]].class_attrs.get(parts[-1])
            if isinstance(v, ast.Constant):
                return v.value
    return None


def function_factory(p: Program) -> list[Element]:
    cls = p.cls("FunctionFactory")
    elem_init = p.func("Function.Element.__init__")
    defaults = {x.name: x.default for x in elem_init.params}
    order = [x.name for x in elem_init.params if x.name != "self"]
    out: list[Element] = []
    for fname in ("_create_operators", "_create_functions"):
        fn = cls.methods.get(fname)
        if fn is None:
            raise AnalysisError(f"anchor vanished: FunctionFactory.{fname}")
        r = Resolver(p, fn)
        rets = [n for n in r.cfg.stmt_nodes() if isinstance(n.ast, ast.Return) and n.ast.value is not None]
        if len(rets) != 1:
            raise AnalysisError(f"FunctionFactory.{fname}: expected a single return")
        t = r.term(rets[0].ast.value, rets[0])
        if t[0] != "list":
            raise AnalysisError(f"FunctionFactory.{fname}: registry is not a list literal ({show(t)[:60]})")
        # locate the ast list for line numbers
        lst = None
        for s in ast.walk(fn.node):
            if isinstance(s, ast.List) and len(s.elts) == len(t[1]) and s.elts and isinstance(s.elts[0], ast.Call):
                lst = s
        for i, el in enumerate(t[1]):
            if not (el[0] == "call" and el[1][0] == "global" and el[1][1].endswith("Function.Element")):
                raise AnalysisError(f"FunctionFactory.{fname}: entry {i} is not a Function.Element(...) call: {show(el)[:60]}")
            bound: dict[str, Term] = {}
            for name, a in zip(order, el[2]):
                bound[name] = a
            for k, v in el[3]:
                bound[k] = v
            line = lst.elts[i].lineno if lst is not None else fn.lineno

            def num(key: str) -> Any:
                if key in bound:
                    v = bound[key]
                    if v[0] == "const":
                        return v[1]
                    if v[0] == "unop" and v[1] == "-" and v[2][0] == "const":
                        return -v[2][1]
                    if v[0] == "call" and v[1][0] == "attr" and v[1][1] == ("param", "self") and all(a[0] == "const" for a in v[2]):
                        helper = cls.lookup(v[1][2])
                        if helper is None:
                            raise AnalysisError(f"FunctionFactory helper {v[1][2]} not found")
                        return const_eval(p, helper, [a[1] for a in v[2]])
                    raise AnalysisError(f"FunctionFactory.{fname} entry {i}: cannot evaluate {key}={show(v)}")
                d = defaults.get(key)
                if isinstance(d, ast.Constant):
                    return d.value
                if isinstance(d, ast.UnaryOp) and isinstance(d.op, ast.USub) and isinstance(d.operand, ast.Constant):
                    return -d.operand.value
                raise AnalysisError(f"Function.Element.__init__ has no constant default for {key}")

            name = _class_const(p, bound.get("name", ("const", None)))
            kind_t = bound.get("type", ("const", None))
            kind = kind_t[1].split(".")[-1] if kind_t[0] == "global" else (kind_t[1] if kind_t[0] == "const" else None)
            m = bound.get("method", ("const", None))
            if m[0] == "global":
                method = m[1]
            elif m[0] == "opaque" and m[1] == "Lambda":
                # find the lambda source
                lam = [x for x in ast.walk(lst.elts[i]) if isinstance(x, ast.Lambda)] if lst is not None else []
                method = "lambda: " + (p.resolve_global(unparse(lam[0].body), fn.module) if lam else "?")
            else:
                method = show(m)
            if not isinstance(name, str) or kind not in ("Operator", "Function"):
                raise AnalysisError(f"FunctionFactory.{fname} entry {i}: name/type not recognised ({show(el)[:80]})")
            out.append(Element(name, kind, method, m, int(num("arity")), float(num("precedence")), int(num("associativity")), line, fname))
    return out
