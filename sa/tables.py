"""Table extractors: turn registry code into data that rules compare with specification tables."""

from __future__ import annotations

import ast
from dataclasses import dataclass
from typing import Any

from .cfg import cfg_of
from .pm import AnalysisError, FunctionInfo, Program, dotted, unparse
from .sym import Resolver, Term, show


def const_eval(p: Program, fn: FunctionInfo, args: list[Any]) -> Any:
    """Evaluate an arithmetic helper (like FunctionFactory._precedence) on constant arguments: its resolved return term is
    interpreted with the parameters bound (locals, temporaries and tuple assignments are seen through)."""
    params = [x.name for x in fn.params if x.name != "self"]
    if len(params) != len(args):
        raise AnalysisError(f"cannot evaluate {fn.qualname} on {len(args)} argument(s)")
    env = dict(zip(params, args))
    r = Resolver(p, fn)
    rets = [n for n in r.cfg.stmt_nodes() if isinstance(n.ast, ast.Return) and n.ast.value is not None]
    if len(rets) != 1:
        raise AnalysisError(f"{fn.qualname}: expected a single return for constant evaluation")

    def ev(t: Term) -> Any:
        k = t[0]
        if k == "const" and isinstance(t[1], (int, float)):
            return t[1]
        if k == "param" and t[1] in env:
            return env[t[1]]
        if k == "unop" and t[1] in ("-", "+"):
            v = ev(t[2])
            return -v if t[1] == "-" else v
        if k == "unpack" and t[1][0] in ("tuple", "list") and len(t[2]) == 1 and isinstance(t[2][0], int):
            return ev(t[1][1][t[2][0]])
        if k == "binop":
            a, b = ev(t[2]), ev(t[3])
            ops = {"+": lambda: a + b, "-": lambda: a - b, "*": lambda: a * b, "/": lambda: a / b, "//": lambda: a // b, "**": lambda: a ** b}
            if t[1] in ops:
                return ops[t[1]]()
        if k == "call" and t[1][0] == "global" and t[1][1] in ("int", "float") and len(t[2]) == 1:
            return (int if t[1][1] == "int" else float)(ev(t[2][0]))
        raise AnalysisError(f"{fn.qualname}: cannot evaluate `{show(t)[:80]}` as constant arithmetic")

    return ev(r.term(rets[0].ast.value, rets[0]))  # type: ignore[union-attr]


def built_list(fn: FunctionInfo, r: Resolver) -> list[tuple[ast.expr, Any]]:
    """The elements of the list a straight-line builder returns: a list literal, or a local list grown by append / extend / +=
    / concatenation. Returns [(element expression, cfg node of the statement that adds it)]."""
    lists: dict[str, list[tuple[ast.expr, Any]]] = {}
    node_of = {id(n.ast): n for n in r.cfg.stmt_nodes() if not n.copy}

    def elements(e: ast.expr, n: Any) -> list[tuple[ast.expr, Any]]:
        if isinstance(e, (ast.List, ast.Tuple)):
            out = []
            for x in e.elts:
                if isinstance(x, ast.Starred):
                    out += elements(x.value, n)
                else:
                    out.append((x, n))
            return out
        if isinstance(e, ast.Name) and e.id in lists:
            return list(lists[e.id])
        if isinstance(e, ast.BinOp) and isinstance(e.op, ast.Add):
            return elements(e.left, n) + elements(e.right, n)
        if isinstance(e, ast.Call) and isinstance(e.func, ast.Name) and e.func.id in ("list", "tuple") and len(e.args) <= 1:
            return elements(e.args[0], n) if e.args else []
        raise AnalysisError(f"{fn.qualname}: `{unparse(e)[:60]}` is not a list that is built element by element")

    for s in fn.body:
        n = node_of.get(id(s))
        if isinstance(s, ast.Expr) and isinstance(s.value, ast.Constant):
            continue
        if isinstance(s, (ast.Assign, ast.AnnAssign)) and s.value is not None:
            tg = s.targets[0] if isinstance(s, ast.Assign) else s.target
            if isinstance(tg, ast.Name):
                try:
                    lists[tg.id] = elements(s.value, n)
                except AnalysisError:
                    lists.pop(tg.id, None)  # an ordinary local (resolved through the term machinery)
            continue
        if isinstance(s, ast.AugAssign) and isinstance(s.target, ast.Name) and s.target.id in lists and isinstance(s.op, ast.Add):
            lists[s.target.id] = lists[s.target.id] + elements(s.value, n)
            continue
        if isinstance(s, ast.Expr) and isinstance(s.value, ast.Call) and isinstance(s.value.func, ast.Attribute) and \
                isinstance(s.value.func.value, ast.Name) and s.value.func.value.id in lists:
            c = s.value
            if c.func.attr == "append" and len(c.args) == 1:
                lists[c.func.value.id].append((c.args[0], n))
                continue
            if c.func.attr == "extend" and len(c.args) == 1:
                lists[c.func.value.id] += elements(c.args[0], n)
                continue
        if isinstance(s, ast.Return) and s.value is not None:
            return elements(s.value, n)
        if isinstance(s, (ast.Import, ast.ImportFrom, ast.Pass)):
            continue
        raise AnalysisError(f"{fn.qualname}: statement at line {s.lineno} is not part of a straight-line list construction")
    raise AnalysisError(f"{fn.qualname}: no return")


@dataclass
class Element:
    name: str
    kind: str  # 'Operator' | 'Function'
    method: str  # canonical dotted name, or 'lambda: <expr>'
    method_term: Term
    arity: int
    precedence: float
    associativity: int
    lineno: int
    factory_fn: str


def _class_const(p: Program, t: Term) -> Any:
    """Value of a class-level string constant referenced as a global (fuzzylite.rule.Rule.AND -> 'and')."""
    if t[0] == "const":
        return t[1]
    if t[0] == "global":
        parts = t[1].split(".")
        if len(parts) >= 2 and parts[-2] in p.classes:
            v = p.classes[parts[-2]].class_attrs.get(parts[-1])
            if isinstance(v, ast.Constant):
                return v.value
    return None


def function_factory(p: Program) -> list[Element]:
    cls = p.cls("FunctionFactory")
    elem_init = p.func("Function.Element.__init__")
    defaults = {x.name: x.default for x in elem_init.params}
    order = [x.name for x in elem_init.params if x.name != "self"]
    out: list[Element] = []
    for fname in ("_create_operators", "_create_functions"):
        fn = cls.methods.get(fname)
        if fn is None:
            raise AnalysisError(f"anchor vanished: FunctionFactory.{fname}")
        r = Resolver(p, fn)
        entries = built_list(fn, r)
        for i, (el_ast, el_node) in enumerate(entries):
            el = r.term(el_ast, el_node)
            if not (el[0] == "call" and el[1][0] == "global" and el[1][1].endswith("Function.Element")):
                raise AnalysisError(f"FunctionFactory.{fname}: entry {i} is not a Function.Element(...) call: {show(el)[:60]}")
            bound: dict[str, Term] = {}
            for name, a in zip(order, el[2]):
                bound[name] = a
            for k, v in el[3]:
                bound[k] = v
            line = el_ast.lineno

            def num(key: str) -> Any:
                if key in bound:
                    v = bound[key]
                    if v[0] == "const":
                        return v[1]
                    if v[0] == "unop" and v[1] == "-" and v[2][0] == "const":
                        return -v[2][1]
                    if v[0] == "call" and v[1][0] == "attr" and v[1][1] == ("param", "self") and all(a[0] == "const" for a in v[2]):
                        helper = cls.lookup(v[1][2])
                        if helper is None:
                            raise AnalysisError(f"FunctionFactory helper {v[1][2]} not found")
                        return const_eval(p, helper, [a[1] for a in v[2]])
                    raise AnalysisError(f"FunctionFactory.{fname} entry {i}: cannot evaluate {key}={show(v)}")
                d = defaults.get(key)
                if isinstance(d, ast.Constant):
                    return d.value
                if isinstance(d, ast.UnaryOp) and isinstance(d.op, ast.USub) and isinstance(d.operand, ast.Constant):
                    return -d.operand.value
                raise AnalysisError(f"Function.Element.__init__ has no constant default for {key}")

            name = _class_const(p, bound.get("name", ("const", None)))
            kind_t = bound.get("type", ("const", None))
            kind = kind_t[1].split(".")[-1] if kind_t[0] == "global" else (kind_t[1] if kind_t[0] == "const" else None)
            m = bound.get("method", ("const", None))
            if m[0] == "global":
                method = m[1]
            elif m[0] == "opaque" and m[1] == "Lambda":
                # find the lambda source
                lam = [x for x in ast.walk(el_ast) if isinstance(x, ast.Lambda)]
                method = "lambda: " + (p.resolve_global(unparse(lam[0].body), fn.module) if lam else "?")
            else:
                method = show(m)
            if not isinstance(name, str) or kind not in ("Operator", "Function"):
                raise AnalysisError(f"FunctionFactory.{fname} entry {i}: name/type not recognised ({show(el)[:80]})")
            out.append(Element(name, kind, method, m, int(num("arity")), float(num("precedence")), int(num("associativity")), line, fname))
    return out
