"""Obligation bookkeeping, known findings, evidence and replay files."""

from __future__ import annotations

import json
import os
import time
from dataclasses import dataclass, field
from typing import Any

from .pm import AnalysisError, Program

VERIF = os.path.dirname(os.path.dirname(os.path.abspath(__file__)))
KNOWN_FINDINGS = os.path.join(VERIF, "known_findings.json")


@dataclass
class Obligation:
    rule: str
    construct: str
    status: str  # ok | violation
    what: str = ""
    loc: str = ""
    facts: dict[str, Any] = field(default_factory=dict)
    exhaustive: bool = False
    cases: int = 1

    @property
    def key(self) -> str:
        return f"{self.rule}/{self.construct}"


class Check:
    """Collects the obligations of one property check."""

    def __init__(self, prop: str, program: Program, tier: str = "quick"):
        self.prop = prop
        self.program = program
        self.tier = tier
        self.obligations: list[Obligation] = []
        self.units: set[str] = set()
        self.functions: set[str] = set()
        self.notes: list[str] = []
        self.assumptions: list[str] = []
        self.explanation = ""
        self.exhaustive_parts: list[str] = []
        self.t0 = time.time()
        self.incomplete: str | None = None

    # -- recording
    def analysed(self, fn: Any) -> None:
        self.functions.add(fn.qualname)
        self.units.add(fn.file)

    def ok(self, rule: str, construct: str, what: str = "", loc: str = "", facts: dict | None = None,
           exhaustive: bool = False, cases: int = 1) -> None:
        self.obligations.append(Obligation(rule, construct, "ok", what, loc, facts or {}, exhaustive, cases))

    def violation(self, rule: str, construct: str, what: str, loc: str = "", facts: dict | None = None) -> None:
        self.obligations.append(Obligation(rule, construct, "violation", what, loc, facts or {}))

    def require(self, cond: bool, rule: str, construct: str, what: str, loc: str = "", facts: dict | None = None,
                exhaustive: bool = False, cases: int = 1) -> bool:
        if cond:
            self.ok(rule, construct, what, loc, facts, exhaustive, cases)
        else:
            self.violation(rule, construct, what, loc, facts)
        return bool(cond)

    def count(self, rule_prefix: str) -> int:
        return sum(1 for o in self.obligations if o.rule == rule_prefix or o.rule.startswith(rule_prefix + "."))


class FilteredCheck:
    """View of a Check that keeps only the given rules (optionally renamed): lets one property reuse the rule set of another."""

    def __init__(self, check: Check, rename: dict[str, str]):
        self._c = check
        self._rename = rename

    def __getattr__(self, name: str) -> Any:
        return getattr(self._c, name)

    def ok(self, rule: str, *a: Any, **k: Any) -> None:
        if rule in self._rename:
            self._c.ok(self._rename[rule], *a, **k)

    def violation(self, rule: str, *a: Any, **k: Any) -> None:
        if rule in self._rename:
            self._c.violation(self._rename[rule], *a, **k)

    def require(self, cond: bool, rule: str, *a: Any, **k: Any) -> bool:
        if rule in self._rename:
            return self._c.require(cond, self._rename[rule], *a, **k)
        return bool(cond)


def load_known() -> dict[str, Any]:
    if not os.path.exists(KNOWN_FINDINGS):
        return {"known": [], "fixed": []}
    with open(KNOWN_FINDINGS, encoding="utf-8") as f:
        return json.load(f)


def _jsonable(x: Any) -> Any:
    if isinstance(x, dict):
        return {str(k): _jsonable(v) for k, v in x.items()}
    if isinstance(x, (list, tuple, set, frozenset)):
        return [_jsonable(v) for v in x]
    if isinstance(x, (str, int, float, bool)) or x is None:
        return x
    return str(x)


def finish(check: Check, floors: dict[str, int], root: str, selftest: dict | None = None) -> int:
    """Print the verdict, write evidence and replay files, return the exit code."""
    prop = check.prop
    evid_dir = os.path.join(VERIF, "evidence")
    if os.environ.get("VERIF_SCRATCH_EVIDENCE"):  # trial runs against a seeded change: keep the committed evidence intact
        evid_dir = os.path.join("/tmp", "verif-scratch-evidence")
    replay_dir = os.path.join(evid_dir, "replays")
    os.makedirs(replay_dir, exist_ok=True)

    # instance floors: a rule that matches fewer sites than confirmed by hand is broken, not passing
    # (when a violation was already established the floors say nothing more: the violation is reported)
    for rule, floor in ({} if any(o.status == "violation" for o in check.obligations) else floors).items():
        got = check.count(rule)
        if got < floor:
            raise AnalysisError(
                f"rule {prop}/{rule} matched {got} instance(s), below the floor of {floor} confirmed on the pinned tree "
                "(anchor moved or construct no longer recognised)"
            )

    known = load_known()
    known_keys = {
        (k["property"], f"{k['rule']}/{k['construct']}"): k for k in known.get("known", []) if k.get("property") == prop
    }
    violations = [o for o in check.obligations if o.status == "violation"]
    new = [o for o in violations if (prop, o.key) not in known_keys]
    listed = [o for o in violations if (prop, o.key) in known_keys]

    # stale replays of this property
    for f in os.listdir(replay_dir):
        if f.startswith(prop + "-"):
            os.remove(os.path.join(replay_dir, f))

    print(f"[{prop}] tier={check.tier} root={root} functions={len(check.functions)} "
          f"obligations={len(check.obligations)} discharged={len(check.obligations) - len(violations)}")
    per_rule: dict[str, list[int]] = {}
    for o in check.obligations:
        r = per_rule.setdefault(o.rule, [0, 0])
        r[0] += 1
        r[1] += o.status == "ok"
    for rule in sorted(per_rule):
        print(f"  rule {rule:<10} instances={per_rule[rule][0]:<3} ok={per_rule[rule][1]}")
    for o in listed:
        k = known_keys[(prop, o.key)]
        print(f"KNOWN-FINDING: property={prop} {o.key} at {o.loc}: {k.get('what', o.what)}")
    for i, o in enumerate(new):
        path = os.path.join(replay_dir, f"{prop}-{i}.json")
        with open(path, "w", encoding="utf-8") as f:
            json.dump(_jsonable({"property": prop, "rule": o.rule, "construct": o.construct, "loc": o.loc,
                                 "what": o.what, "facts": o.facts, "root": root}), f, indent=1)
        print(f"  {o.loc}: [{o.key}] {o.what}")
        print(f"VIOLATION property={prop} replay={path}")

    ok_obl = [o for o in check.obligations if o.status == "ok"]
    samples = []
    seen_rules: set[str] = set()
    for o in check.obligations:
        if o.rule not in seen_rules:
            seen_rules.add(o.rule)
            samples.append(_jsonable({"rule": o.rule, "construct": o.construct, "loc": o.loc, "status": o.status,
                                      "what": o.what, "facts": o.facts}))
    distinct = len({o.key for o in check.obligations})
    cases = sum(o.cases for o in check.obligations)
    evidence = {
        "property_id": prop,
        "tier": check.tier,
        "seed": int(os.environ.get("VERIF_SEED", "0") or 0),
        "level": "other",
        "wall_s": round(time.time() - check.t0, 3),
        "violations": len(new),
        "coverage": {
            "explanation": check.explanation or f"static analysis of {len(check.functions)} functions",
            "obligations": len(check.obligations),
            "discharged": len(ok_obl) + len(listed),
            "known_findings": [o.key for o in listed],
            "evaluations": cases,
            "distinct_nontrivial": distinct,
            "rule": "one obligation = one rule instance keyed (rule id, qualified construct); evaluations also counts the "
                    "abstract cases enumerated inside exhaustive instances (truth-table rows, automaton transitions, "
                    "abstract inputs); an instance is non-trivial when it constrains at least one extracted program fact",
            "exhaustive": bool(check.exhaustive_parts),
            "exhaustive_parts": check.exhaustive_parts,
            "per_rule": {r: {"instances": v[0], "ok": v[1]} for r, v in sorted(per_rule.items())},
            "functions_analysed": sorted(check.functions),
            "units_analysed": sorted(check.units),
            "file_digests": check.program.digests(sorted(check.units)),
            "samples": samples[:40],
            "notes": check.notes,
            "trusted_base": ["CPython ast", "/verif/sa (this analyser)", "DESIGN.md Appendix A tables"],
        },
        "assumptions": check.assumptions,
    }
    if selftest is not None:
        evidence["coverage"]["selftest"] = selftest
    with open(os.path.join(evid_dir, f"{prop}.json"), "w", encoding="utf-8") as f:
        json.dump(evidence, f, indent=1)
    return 1 if new else 0
