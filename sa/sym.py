"""Origin tracing: resolve an expression at a CFG node into a symbolic term over
parameters, attribute loads, calls and constants, by substituting local names with their
reaching definitions.

Terms are nested tuples (hashable, comparable):

  ('param', name)                 function parameter (incl. self)
  ('global', dotted)              module-level / builtin / imported name, canonicalised ('numpy.where')
  ('const', value)
  ('attr', base, name)
  ('call', func, args, kwargs)    args: tuple of terms; kwargs: tuple of (name, term) sorted by name
  ('binop', op, l, r) ('unop', op, x) ('cmp', (ops...), (operands...)) ('bool', op, (operands...))
  ('ifexp', test, a, b)
  ('sub', base, index)  ('slice', lo, hi, step)
  ('tuple', items) ('list', items) ('set', items) ('dict', ((k, v), ...))
  ('elem', iterable)              element produced by iterating `iterable`
  ('index', iterable)             the enumerate() counter for `iterable`
  ('unpack', value, path)         position `path` of an unpacked value
  ('phi', alts)                   several reaching definitions (alts is a frozenset)
  ('carried', name)               value of `name` flowing around a loop (cycle in the def-use chain)
  ('with', ctx) ('exc', type) ('localdef', name)
  ('opaque', kind, deps)          f-strings, comprehensions, lambdas: only their free dependencies
"""

from __future__ import annotations

import ast
from typing import Any, Iterator

from .cfg import CFG, Def, Node, cfg_of
from .pm import AnalysisError, FunctionInfo, Program, dotted

Term = tuple

_BINOPS = {
    ast.Add: "+", ast.Sub: "-", ast.Mult: "*", ast.Div: "/", ast.FloorDiv: "//", ast.Mod: "%", ast.Pow: "**",
    ast.BitAnd: "&", ast.BitOr: "|", ast.BitXor: "^", ast.LShift: "<<", ast.RShift: ">>", ast.MatMult: "@",
}
_UNOPS = {ast.Not: "not", ast.USub: "-", ast.UAdd: "+", ast.Invert: "~"}
_CMPOPS = {
    ast.Eq: "==", ast.NotEq: "!=", ast.Lt: "<", ast.LtE: "<=", ast.Gt: ">", ast.GtE: ">=",
    ast.Is: "is", ast.IsNot: "is not", ast.In: "in", ast.NotIn: "not in",
}


def binop_symbol(op: ast.AST) -> str:
    return _BINOPS[type(op)]


def cmpop_symbol(op: ast.AST) -> str:
    return _CMPOPS[type(op)]


def phi(alts: Iterator[Term] | list[Term] | set[Term]) -> Term:
    flat: set[Term] = set()
    for a in alts:
        if a[0] == "phi":
            flat |= set(a[1])
        else:
            flat.add(a)
    if len(flat) == 1:
        return next(iter(flat))
    return ("phi", frozenset(flat))


class Resolver:
    def __init__(self, program: Program, fn: FunctionInfo):
        self.program = program
        self.fn = fn
        self.cfg: CFG = cfg_of(fn)
        self.mod = fn.module
        self._stack: list[Def] = []
        self.opaque_nodes: dict[int, ast.AST] = {}


    def _is_namespace(self, dotted_name: str) -> bool:
        """Modules and classes are namespaces (attribute access yields another global); instances are not."""
        pkg = self.program.package
        if not (dotted_name == pkg or dotted_name.startswith(pkg + ".")):
            return True  # external modules / builtins: numpy.where, heapq.heappush, operator.lt
        if dotted_name in self.program.modules:
            return True
        parts = dotted_name.split(".")
        # fuzzylite.<module>.<Class>[.<Inner>...]
        for i in range(len(parts), 1, -1):
            if ".".join(parts[:i]) in self.program.modules:
                qual = ".".join(parts[i:])
                return qual in self.program.classes
        return False

    def _positional(self, func: Term, args: list, kwargs: tuple) -> tuple[list, tuple]:
        """Move keyword arguments of calls to in-package methods into their positions when every candidate callee
        of that name agrees on the parameter order (so `f(a, b)` and `f(x=a, y=b)` resolve to the same term)."""
        if func[0] == "attr":
            name = func[2]
            cands = [c.methods[name] for c in self.program.classes.values() if name in c.methods]
            skip = 1
        elif func[0] == "global" and func[1].startswith(self.program.package):
            last = func[1].split(".")[-1]
            f = self.program.functions.get(last)
            cands = [f] if f is not None and f.cls is None else []
            skip = 0
            if not cands:
                parts = func[1].split(".")
                if len(parts) >= 2 and parts[-2] in self.program.classes and parts[-1] in self.program.classes[parts[-2]].methods:
                    cands = [self.program.classes[parts[-2]].methods[parts[-1]]]
                    skip = 0 if cands[0].is_static else 1
                elif parts[-1] in self.program.classes:
                    # a constructor call: keywords are matched against __init__ (through the MRO), self skipped
                    init = self.program.classes[parts[-1]].lookup("__init__")
                    if init is not None:
                        cands = [init]
                        skip = 1
        else:
            return args, kwargs
        kwnames = {k for k, _ in kwargs}
        cands = [f for f in cands if kwnames <= {x.name for x in f.params}]
        if not cands:
            return args, kwargs
        orders = set()
        for f in cands:
            ps = [x.name for x in f.params if x.kind in ("pos", "posonly")]
            ps = ps[(0 if f.is_static else 1):] if func[0] == "attr" else ps[skip:]
            orders.add(tuple(ps))
        kw = dict(kwargs)
        if "**" in kw:
            return args, kwargs
        out = list(args)
        for order in orders:
            need = list(order[len(args):])
            # all candidates must place the given keywords contiguously right after the positional arguments
            if need[:len(kw)] and set(need[:len(kw)]) == set(kw):
                continue
            return args, kwargs
        order = next(iter(orders))
        if len({tuple(o[len(args):len(args) + len(kw)]) for o in orders}) != 1:
            return args, kwargs
        for n in order[len(args):len(args) + len(kw)]:
            out.append(kw[n])
        return out, ()

    # ---------------------------------------------------------------- names
    def _global(self, name: str) -> Term:
        return ("global", self.program.resolve_global(name, self.mod))

    def name_term(self, name: str, node: Node) -> Term:
        defs = self.cfg.defs_reaching(name, node)
        if not defs:
            return self._global(name)
        ds = sorted(defs, key=lambda d: (d.node.id, d.path))
        if len(ds) >= 2 and not any(d in self._stack for d in ds) and self._same_nesting(ds, node):
            gated = self._gated(ds)
            if gated is not None:
                return gated
        return phi([self._def_term(d) for d in ds])

    def _same_nesting(self, ds: list[Def], node: Node) -> bool:
        """All definitions and the use sit in the same loops (no value flows around a back edge between them)."""
        key = lambda n: frozenset(h.id for h in self.cfg.enclosing_loops(n))  # noqa: E731
        ks = {key(d.node) for d in ds if d.kind != "param"} or {frozenset()}
        if any(d.kind == "param" for d in ds):
            ks.add(frozenset())
        return len(ks) == 1 and next(iter(ks)) <= key(node)

    def _gated(self, ds: list[Def]) -> Term | None:
        """Definitions made in the two branches of one `if` become a conditional expression on that test
        (so `x = a if c else b` and `if c: x = a / else: x = b` resolve to the same term)."""
        guards = {}
        for d in ds:
            guards[d] = {} if d.kind == "param" else {(gn.id, pol): (g, gn) for g, pol, gn in self.cfg.must_guards(d.node)}
        all_tests: set[int] = set()
        for d in ds:
            all_tests |= {k[0] for k in guards[d]}
        for tid in sorted(all_tests):
            true_side = [d for d in ds if (tid, True) in guards[d]]
            false_side = [d for d in ds if (tid, False) in guards[d]]
            rest = [d for d in ds if d not in true_side and d not in false_side]
            if rest and (bool(true_side) != bool(false_side)):
                # default-then-override: `x = a` before the test, `x = b` under it
                gn_ = guards[(true_side or false_side)[0]][(tid, bool(true_side))][1]
                if all(self.cfg.dominates(d.node, gn_) for d in rest):
                    if true_side:
                        false_side = rest
                    else:
                        true_side = rest
                    rest = []
            if true_side and false_side and not rest:
                key = (tid, True) if (tid, True) in guards[true_side[0]] else None
                g, gn = guards[true_side[0]][key] if key else guards[false_side[0]][(tid, False)]
                cond = self.term(g, gn)

                def side(group: list[Def]) -> Term:
                    if len(group) >= 2:
                        inner = self._gated(group)
                        if inner is not None:
                            return inner
                    return phi([self._def_term(d) for d in group])

                return ("ifexp", cond, side(true_side), side(false_side))
        return None

    def _def_term(self, d: Def) -> Term:
        if d in self._stack:
            return ("carried", d.name)
        self._stack.append(d)
        try:
            return self._def_term_inner(d)
        finally:
            self._stack.pop()

    def _def_term_inner(self, d: Def) -> Term:
        k = d.kind
        if k == "param":
            return ("param", d.name)
        if k in ("value", "walrus"):
            return self.term(d.value, d.node)  # type: ignore[arg-type]
        if k == "unpack":
            v = d.value
            cur: ast.AST | None = v
            ok = True
            for i in d.path:
                if isinstance(cur, (ast.Tuple, ast.List)) and 0 <= i < len(cur.elts) and not any(
                    isinstance(e, ast.Starred) for e in cur.elts
                ):
                    cur = cur.elts[i]
                else:
                    ok = False
                    break
            if ok and cur is not None:
                return self.term(cur, d.node)
            return ("unpack", self.term(v, d.node), d.path)  # type: ignore[arg-type]
        if k == "aug":
            op = binop_symbol(d.node.ast.op)  # type: ignore[union-attr]
            return ("binop", op, self.name_term(d.name, d.node), self.term(d.value, d.node))  # type: ignore[arg-type]
        if k == "iter":
            # the iterable is evaluated at the 'iter' node preceding the for head
            it_nodes = [p for p, _ in d.node.pred if p.kind == "iter" and p.ast is d.value]
            at = it_nodes[0] if it_nodes else d.node
            t = self.term(d.value, at)  # type: ignore[arg-type]
            if not d.path and t[0] == "call" and t[1] == ("global", "range") and len(t[2]) == 1 and t[2][0][0] == "call" and \
                    t[2][0][1] == ("global", "len") and len(t[2][0][2]) == 1:
                return ("index", t[2][0][2][0])  # for i in range(len(X)): i is the index into X
            if t[0] == "call" and t[1] == ("global", "enumerate") and len(t[2]) >= 1 and len(d.path) >= 1:
                inner = t[2][0]
                if d.path[0] == 0:
                    return ("index", inner)
                base: Term = ("elem", inner)
                return base if len(d.path) == 1 else ("unpack", base, d.path[1:])
            base = ("elem", t)
            return base if not d.path else ("unpack", base, d.path)
        if k == "with":
            return ("with", self.term(d.value, d.node))  # type: ignore[arg-type]
        if k == "handler":
            return ("exc", self.term(d.value, d.node) if d.value is not None else ("const", None))
        if k == "import":
            return self._global(d.name)
        if k == "def":
            return ("localdef", d.name)
        raise AnalysisError(f"unknown definition kind {k}")

    # ---------------------------------------------------------------- expressions
    def term(self, e: ast.AST, node: Node) -> Term:
        if isinstance(e, ast.Name):
            bound = getattr(self, "_comp_bound", None)
            if bound and e.id in bound:
                return bound[e.id]
            return self.name_term(e.id, node)
        if isinstance(e, ast.Constant):
            return ("const", e.value)
        if isinstance(e, ast.Attribute):
            d = dotted(e)
            base = self.term(e.value, node)
            if base[0] == "global" and self._is_namespace(base[1]):
                return ("global", f"{base[1]}.{e.attr}")
            return ("attr", base, e.attr)
        if isinstance(e, ast.Call):
            func = self.term(e.func, node)
            args = []
            for a in e.args:
                if isinstance(a, ast.Starred):
                    args.append(("star", self.term(a.value, node)))
                else:
                    args.append(self.term(a, node))
            kw = []
            for k in e.keywords:
                v = self.term(k.value, node)
                if k.arg is None and v[0] == "dict" and all(kk[0] == "const" and isinstance(kk[1], str) for kk, _ in v[1]):
                    kw += [(kk[1], vv) for kk, vv in v[1]]  # f(**{"a": x}) is f(a=x)
                else:
                    kw.append((k.arg or "**", v))
            kwargs = tuple(sorted(kw))
            if kwargs:
                args, kwargs = self._positional(func, args, kwargs)
            if func == ("global", "getattr") and len(args) == 2 and not kwargs and args[1][0] == "const" and isinstance(args[1][1], str) \
                    and args[1][1].isidentifier():
                return ("attr", args[0], args[1][1])  # getattr(x, "name") is x.name
            return ("call", func, tuple(args), kwargs)
        if isinstance(e, ast.BinOp):
            return ("binop", binop_symbol(e.op), self.term(e.left, node), self.term(e.right, node))
        if isinstance(e, ast.UnaryOp):
            return ("unop", _UNOPS[type(e.op)], self.term(e.operand, node))
        if isinstance(e, ast.Compare):
            ops = tuple(cmpop_symbol(o) for o in e.ops)
            operands = tuple(self.term(x, node) for x in [e.left] + list(e.comparators))
            return ("cmp", ops, operands)
        if isinstance(e, ast.BoolOp):
            return ("bool", "and" if isinstance(e.op, ast.And) else "or", tuple(self.term(v, node) for v in e.values))
        if isinstance(e, ast.IfExp):
            return ("ifexp", self.term(e.test, node), self.term(e.body, node), self.term(e.orelse, node))
        if isinstance(e, ast.Subscript):
            base, idx = self.term(e.value, node), self.term(e.slice, node)
            if idx == ("index", base):
                return ("elem", base)  # X[i] inside `for i in range(len(X))` / enumerate(X): the current element
            if idx == ("elem", base) and base[0] == "call":
                # D[k] inside `for k in D` (D a mapping returned by a call): the current value, as in `for v in D.values()`
                return ("elem", ("call", ("attr", base, "values"), (), ()))
            return ("sub", base, idx)
        if isinstance(e, ast.Slice):
            f = lambda x: self.term(x, node) if x is not None else ("const", None)  # noqa: E731
            return ("slice", f(e.lower), f(e.upper), f(e.step))
        if isinstance(e, ast.Tuple):
            return ("tuple", tuple(self.term(x, node) for x in e.elts))
        if isinstance(e, ast.List):
            return ("list", tuple(self.term(x, node) for x in e.elts))
        if isinstance(e, ast.Set):
            return ("set", tuple(self.term(x, node) for x in e.elts))
        if isinstance(e, ast.Dict):
            return ("dict", tuple((self.term(k, node) if k is not None else ("const", None), self.term(v, node)) for k, v in zip(e.keys, e.values)))
        if isinstance(e, ast.NamedExpr):
            return self.term(e.value, node)
        if isinstance(e, ast.Starred):
            return ("star", self.term(e.value, node))
        if isinstance(e, ast.JoinedStr):
            parts = []
            for v in e.values:
                if isinstance(v, ast.FormattedValue):
                    parts.append(self.term(v.value, node))
                elif isinstance(v, ast.Constant):
                    parts.append(("const", v.value))
            return ("fstr", tuple(parts))
        if isinstance(e, (ast.ListComp, ast.GeneratorExp)) and len(e.generators) == 1 and isinstance(e.elt, ast.Name) \
                and isinstance(e.generators[0].target, ast.Name) and e.elt.id == e.generators[0].target.id and not e.generators[0].is_async:
            # (v for v in X if C): a selection of the elements of X, in the order of X
            g = e.generators[0]
            base = self.term(g.iter, node)
            if not g.ifs:
                return ("call", ("global", "list"), (base,), ())
            import ast as _ast

            return ("filtered", base, " and ".join(_ast.unparse(c) for c in g.ifs))
        if isinstance(e, (ast.ListComp, ast.GeneratorExp)) and len(e.generators) == 1 and isinstance(e.generators[0].target, ast.Name) \
                and not e.generators[0].is_async and not e.generators[0].ifs:
            # (f(v) for v in X): the elements of X, in order, each mapped by f - f is expressed on elem<X>
            g = e.generators[0]
            base = self.term(g.iter, node)
            old = getattr(self, "_comp_bound", None)
            self._comp_bound = dict(old or {})
            self._comp_bound[g.target.id] = ("elem", base)
            try:
                body = self.term(e.elt, node)
            except AnalysisError:
                body = None
            finally:
                self._comp_bound = old
            if body is not None:
                return ("mapped", base, body)
        if isinstance(e, ast.DictComp) and len(e.generators) == 1 and isinstance(e.generators[0].target, ast.Name) and not e.generators[0].is_async:
            # {k(v): f(v) for v in X if c(v)}: key, value and conditions expressed on elem<X>
            g = e.generators[0]
            base = self.term(g.iter, node)
            old = getattr(self, "_comp_bound", None)
            self._comp_bound = dict(old or {})
            self._comp_bound[g.target.id] = ("elem", base)
            try:
                parts = (self.term(e.key, node), self.term(e.value, node), tuple(self.term(c, node) for c in g.ifs))
            except AnalysisError:
                parts = None
            finally:
                self._comp_bound = old
            if parts is not None:
                return ("mapped_dict", base, parts[0], parts[1], parts[2])
        if isinstance(e, (ast.ListComp, ast.SetComp, ast.DictComp, ast.GeneratorExp, ast.Lambda, ast.FormattedValue)):
            from .cfg import name_uses

            deps = frozenset(self.name_term(n.id, node) for n in name_uses(e))
            self.opaque_nodes[id(e)] = e
            return ("opaque", type(e).__name__, deps, id(e))
        if isinstance(e, (ast.Yield, ast.YieldFrom, ast.Await)):
            return ("opaque", type(e).__name__, frozenset(), id(e))
        raise AnalysisError(f"unsupported expression {type(e).__name__} at {self.fn.loc(e)}")


class PathResolver(Resolver):
    """Path-sensitive resolution along one abstract execution (a node sequence from guards.paths).

    A name resolves to the *last* definition executed before the current position on the path, so the
    term describes exactly what this path computes (loops unrolled once).
    """

    def __init__(self, program: Program, fn: FunctionInfo, path: list[Node]):
        super().__init__(program, fn)
        self.path = path
        self.snap: list[dict[str, tuple[Def, int]]] = []
        cur: dict[str, tuple[Def, int]] = {}
        for d in self.cfg.defs_at(self.cfg.entry):
            cur[d.name] = (d, -1)
        for i, n in enumerate(path):
            self.snap.append(dict(cur))
            for d in self.cfg.defs_at(n):
                cur[d.name] = (d, i)
        self.snap.append(dict(cur))
        self._i = len(path)

    def at(self, e: ast.AST, i: int) -> Term:
        """Resolve expression `e` as evaluated at path position i."""
        old = self._i
        self._i = i
        try:
            return self.term(e, self.path[i] if 0 <= i < len(self.path) else self.cfg.exit)
        finally:
            self._i = old

    def index_of(self, node: Node, last: bool = True) -> int:
        idx = [i for i, n in enumerate(self.path) if n is node]
        if not idx:
            raise AnalysisError(f"node at line {node.lineno} is not on the path")
        return idx[-1] if last else idx[0]

    def name_term(self, name: str, node: Node) -> Term:
        i = max(0, min(self._i, len(self.snap) - 1))
        # an augmented assignment / walrus at position i reads the state *before* i
        hit = self.snap[i].get(name)
        if hit is None:
            return self._global(name)
        d, j = hit
        if d in self._stack:
            return ("carried", d.name)
        self._stack.append(d)
        old = self._i
        self._i = j if j >= 0 else 0
        try:
            return self._def_term_inner(d)
        finally:
            self._i = old
            self._stack.pop()


# ------------------------------------------------------------------- term utilities
def walk(t: Any) -> Iterator[Term]:
    """All sub-terms (pre-order)."""
    if isinstance(t, tuple) and t and isinstance(t[0], str):
        yield t
        for x in t[1:]:
            yield from walk(x)
    elif isinstance(t, (tuple, list, frozenset, set)):
        for x in t:
            yield from walk(x)


def leaves(t: Term) -> set[Term]:
    """Leaves a term depends on: params, attribute paths, globals, constants, carried, call results."""
    out: set[Term] = set()
    for s in walk(t):
        if s[0] in ("param", "global", "const", "carried", "localdef"):
            out.add(s)
    return out


def attr_paths(t: Term) -> set[str]:
    """Dotted attribute paths rooted at a parameter that occur in t, e.g. 'self.weight', 'rule_block.conjunction'."""
    out: set[str] = set()
    for s in walk(t):
        p = path_of(s)
        if p:
            out.add(p)
    return out


def path_of(t: Term) -> str | None:
    """'self.a.b' for ('attr', ('attr', ('param','self'),'a'),'b'); None otherwise."""
    parts: list[str] = []
    cur = t
    while cur[0] == "attr":
        parts.append(cur[2])
        cur = cur[1]
    if cur[0] == "param":
        parts.append(cur[1])
        return ".".join(reversed(parts))
    return None


def mentions(t: Term, sub: Term) -> bool:
    return any(s == sub for s in walk(t))


def alts(t: Term) -> list[Term]:
    """Alternatives of a phi (or the term itself)."""
    return sorted(t[1], key=repr) if t[0] == "phi" else [t]


def calls_in(t: Term) -> list[Term]:
    return [s for s in walk(t) if s[0] == "call"]


def callee_name(call: Term) -> str:
    """A printable callee: 'numpy.where', '<recv>.compute'."""
    f = call[1]
    if f[0] == "global":
        return f[1]
    if f[0] == "attr":
        return "." + f[2]
    return "?"


def show(t: Any, depth: int = 0) -> str:
    """Compact human-readable rendering."""
    if not (isinstance(t, tuple) and t and isinstance(t[0], str)):
        if isinstance(t, (tuple, list, frozenset, set)):
            return "(" + ", ".join(show(x, depth + 1) for x in t) + ")"
        return repr(t)
    k = t[0]
    if depth > 12:
        return "…"
    if k == "param":
        return t[1]
    if k == "global":
        return t[1].replace("numpy.", "np.").replace("fuzzylite.", "")
    if k == "const":
        return repr(t[1])
    if k == "attr":
        return f"{show(t[1], depth + 1)}.{t[2]}"
    if k == "call":
        args = [show(a, depth + 1) for a in t[2]] + [f"{n}={show(v, depth + 1)}" for n, v in t[3]]
        return f"{show(t[1], depth + 1)}({', '.join(args)})"
    if k == "binop":
        return f"({show(t[2], depth + 1)} {t[1]} {show(t[3], depth + 1)})"
    if k == "unop":
        return f"({t[1]} {show(t[2], depth + 1)})"
    if k == "cmp":
        s = show(t[2][0], depth + 1)
        for op, x in zip(t[1], t[2][1:]):
            s += f" {op} {show(x, depth + 1)}"
        return f"({s})"
    if k == "bool":
        return "(" + f" {t[1]} ".join(show(x, depth + 1) for x in t[2]) + ")"
    if k == "ifexp":
        return f"({show(t[2], depth + 1)} if {show(t[1], depth + 1)} else {show(t[3], depth + 1)})"
    if k == "sub":
        return f"{show(t[1], depth + 1)}[{show(t[2], depth + 1)}]"
    if k == "slice":
        return ":".join("" if x == ("const", None) else show(x, depth + 1) for x in t[1:])
    if k in ("tuple", "list", "set"):
        return k + "(" + ", ".join(show(x, depth + 1) for x in t[1]) + ")"
    if k == "dict":
        return "{" + ", ".join(f"{show(a, depth + 1)}: {show(b, depth + 1)}" for a, b in t[1]) + "}"
    if k == "elem":
        return f"elem<{show(t[1], depth + 1)}>"
    if k == "mapped_dict":
        return f"{{{show(t[2], depth + 1)}: {show(t[3], depth + 1)} for {show(t[1], depth + 1)}" + (f" if {' and '.join(show(c, depth + 1) for c in t[4])}" if t[4] else "") + "}"
    if k == "mapped":
        return f"[{show(t[2], depth + 1)} for {show(t[1], depth + 1)}]"
    if k == "filtered":
        return f"filtered<{show(t[1], depth + 1)} if {t[2]}>"
    if k == "index":
        return f"index<{show(t[1], depth + 1)}>"
    if k == "unpack":
        return f"{show(t[1], depth + 1)}#{'.'.join(map(str, t[2]))}"
    if k == "phi":
        return "phi{" + " | ".join(sorted(show(x, depth + 1) for x in t[1])) + "}"
    if k == "carried":
        return f"carried<{t[1]}>"
    if k == "opaque":
        return f"<{t[1]}:{', '.join(sorted(show(x, depth + 1) for x in t[2]))}>"
    if k == "star":
        return "*" + show(t[1], depth + 1)
    if k == "fstr":
        return "f'" + "".join(x[1] if x[0] == "const" and isinstance(x[1], str) else "{" + show(x, depth + 1) + "}" for x in t[1]) + "'"
    return f"<{k}>"
