"""Abstract interpretation of the numpy kernels over an extended-sign domain.

Abstract numbers are subsets of {nan, -inf, neg, zero, pos, +inf}; abstract booleans are subsets of
{True, False}. Transfer functions are tabulated by evaluating the IEEE operation on representative
values of each class (three per open class), so e.g. zero * +inf = {nan}, pos / zero = {+inf},
log(+inf) = {+inf}, pos - pos = {neg, zero, pos}. Kernels are evaluated on their *resolved return
term* (sym.Resolver), nested term constructions (Sigmoid(...).membership(x)) are inlined by binding
the constructor arguments. A callee or construct that is not modelled aborts the analysis.
"""

from __future__ import annotations

import itertools
import math
from typing import Any, Callable

from .pm import AnalysisError, ClassInfo, Program
from .sym import Resolver, Term, show

NAN, NINF, NEG, ZERO, POS, PINF = "nan", "-inf", "neg", "zero", "pos", "+inf"
ALL = frozenset({NAN, NINF, NEG, ZERO, POS, PINF})
NUM = frozenset({NINF, NEG, ZERO, POS, PINF})
FINITE = frozenset({NEG, ZERO, POS})
REPS = {NAN: [float("nan")], NINF: [float("-inf")], NEG: [-3.0, -1.0, -0.25], ZERO: [0.0], POS: [0.25, 1.0, 3.0], PINF: [float("inf")]}
T, F = True, False
BOTH = frozenset({True, False})


class Abs(frozenset):
    """Abstract number (set of classes)."""


def classify(v: float) -> str:
    if v != v:
        return NAN
    if v == float("inf"):
        return PINF
    if v == float("-inf"):
        return NINF
    if v == 0:
        return ZERO
    return POS if v > 0 else NEG


def is_bool(a: Any) -> bool:
    return isinstance(a, frozenset) and not isinstance(a, Abs) and all(isinstance(x, bool) for x in a)


def to_num(a: Any) -> Abs:
    if is_bool(a):
        return Abs({POS if x else ZERO for x in a})
    return a


def reps(a: Abs) -> list[float]:
    out: list[float] = []
    for c in sorted(a):
        out += REPS[c]
    return out


# ---- IEEE helpers (Python raises where numpy returns inf/nan)
def f_div(a: float, b: float) -> float:
    if b == 0:
        if a == 0 or a != a:
            return float("nan")
        return math.copysign(float("inf"), a)
    try:
        return a / b
    except OverflowError:  # pragma: no cover
        return math.copysign(float("inf"), a) * math.copysign(1.0, b)


def f_log(a: float) -> float:
    if a != a:
        return a
    if a == 0:
        return float("-inf")
    if a < 0:
        return float("nan")
    return math.log(a)


def f_sqrt(a: float) -> float:
    if a != a:
        return a
    if a < 0:
        return float("nan")
    return math.sqrt(a) if a != float("inf") else a


def f_exp(a: float) -> float:
    try:
        return math.exp(a)
    except OverflowError:
        return float("inf")


def f_pow(a: float, b: float) -> float:
    try:
        r = a ** b
        if isinstance(r, complex):
            return float("nan")
        return r
    except ZeroDivisionError:
        return float("inf")
    except OverflowError:
        return float("inf")


def f_cos(a: float) -> float:
    if a != a or a in (float("inf"), float("-inf")):
        return float("nan")
    return math.cos(a)


def f_mod(a: float, b: float) -> float:
    if b == 0 or a != a or b != b or a in (float("inf"), float("-inf")):
        return float("nan")
    return math.fmod(a, b)


def lift2(fn: Callable[[float, float], float]) -> Callable[[Abs, Abs], Abs]:
    def g(a: Abs, b: Abs) -> Abs:
        return Abs({classify(fn(x, y)) for x in reps(a) for y in reps(b)})
    return g


def lift1(fn: Callable[[float], float]) -> Callable[[Abs], Abs]:
    def g(a: Abs) -> Abs:
        return Abs({classify(fn(x)) for x in reps(a)})
    return g


ADD = lift2(lambda a, b: a + b)
SUB = lift2(lambda a, b: a - b)
MUL = lift2(lambda a, b: a * b)
DIV = lift2(f_div)
POW = lift2(f_pow)
MOD = lift2(f_mod)
MINIMUM = lift2(lambda a, b: float("nan") if a != a or b != b else min(a, b))
MAXIMUM = lift2(lambda a, b: float("nan") if a != a or b != b else max(a, b))
NEGATE = lift1(lambda a: -a)
SQRT = lift1(f_sqrt)
LOG = lift1(f_log)
EXP = lift1(f_exp)
SQUARE = lift1(lambda a: a * a)
ABSV = lift1(abs)
COS = lift1(f_cos)
SIGN = lift1(lambda a: a if a != a else (0.0 if a == 0 else math.copysign(1.0, a)))


def compare(op: str, a: Abs, b: Abs) -> frozenset:
    out = set()
    for x in reps(a):
        for y in reps(b):
            if op == "<":
                out.add(x < y)
            elif op == "<=":
                out.add(x <= y)
            elif op == ">":
                out.add(x > y)
            elif op == ">=":
                out.add(x >= y)
            elif op == "==":
                out.add(x == y)
            elif op == "!=":
                out.add(x != y)
            else:
                raise AnalysisError(f"comparison {op} not modelled")
    return frozenset(out)


def b_and(a: frozenset, b: frozenset) -> frozenset:
    return frozenset({x and y for x in a for y in b})


def b_or(a: frozenset, b: frozenset) -> frozenset:
    return frozenset({x or y for x in a for y in b})


def b_not(a: frozenset) -> frozenset:
    return frozenset({not x for x in a})


def join(a: Any, b: Any) -> Any:
    if is_bool(a) and is_bool(b):
        return frozenset(a | b)
    return Abs(to_num(a) | to_num(b))


IDENTITY_CALLS = {
    "fuzzylite.library.scalar", "numpy.asarray", "numpy.array", "numpy.atleast_1d", "numpy.atleast_2d", "numpy.asanyarray",
    "float", "numpy.float64", "numpy.squeeze", "numpy.copy", "fuzzylite.library.array", "fuzzylite.library.to_float",
}
IDENTITY_METHODS = {"squeeze", "copy", "astype", "flatten", "ravel", "item"}
IDENTITY_ATTRS = {"T"}


class Evaluator:
    def __init__(self, program: Program, env: Callable[[Term], Any], depth: int = 3):
        self.p = program
        self.env = env  # leaf term -> abstract value or None
        self.depth = depth
        self.trace: list[str] = []

    def ev(self, t: Term) -> Any:
        v = self.env(t)
        if v is not None:
            return v
        k = t[0]
        if k == "const":
            c = t[1]
            if isinstance(c, bool):
                return frozenset({c})
            if isinstance(c, (int, float)):
                return Abs({classify(float(c))})
            if c is None:
                raise AnalysisError("None used as a number in a kernel")
            raise AnalysisError(f"constant {c!r} used as a number in a kernel")
        if k == "global":
            if t[1] in ("fuzzylite.library.nan", "numpy.nan", "math.nan"):
                return Abs({NAN})
            if t[1] in ("fuzzylite.library.inf", "numpy.inf", "math.inf"):
                return Abs({PINF})
            if t[1] in ("numpy.pi", "math.pi", "numpy.e", "math.e"):
                return Abs({POS})
            raise AnalysisError(f"global {t[1]} is not modelled by the kernel interpreter")
        if k == "binop":
            op = t[1]
            if op in ("&", "|", "^"):
                a, b = self.ev(t[2]), self.ev(t[3])
                if is_bool(a) and is_bool(b):
                    return b_and(a, b) if op == "&" else (b_or(a, b) if op == "|" else frozenset({x != y for x in a for y in b}))
                raise AnalysisError(f"bitwise {op} on numbers in a kernel")
            if op == "**" and t[3][0] == "const" and isinstance(t[3][1], (int, float)) and not isinstance(t[3][1], bool):
                k = t[3][1]
                return lift1(lambda v, k=k: f_pow(v, k))(to_num(self.ev(t[2])))
            a, b = to_num(self.ev(t[2])), to_num(self.ev(t[3]))
            if op == "+":
                return ADD(a, b)
            if op == "-":
                return SUB(a, b)
            if op == "*":
                return MUL(a, b)
            if op == "/":
                return DIV(a, b)
            if op == "**":
                return POW(a, b)
            if op == "%":
                return MOD(a, b)
            raise AnalysisError(f"operator {op} not modelled")
        if k == "unop":
            a = self.ev(t[2])
            if t[1] == "-":
                return NEGATE(to_num(a))
            if t[1] == "+":
                return to_num(a)
            if t[1] in ("~", "not"):
                if is_bool(a):
                    return b_not(a)
                raise AnalysisError("~ on a number in a kernel")
        if k == "cmp":
            res = frozenset({True})
            vals = [to_num(self.ev(x)) for x in t[2]]
            for op, a, b in zip(t[1], vals, vals[1:]):
                res = b_and(res, compare(op, a, b))
            return res
        if k == "bool":
            vals = [self.ev(x) for x in t[2]]
            if all(is_bool(v) for v in vals):
                acc = vals[0]
                for v in vals[1:]:
                    acc = b_and(acc, v) if t[1] == "and" else b_or(acc, v)
                return acc
            raise AnalysisError("and/or on numbers in a kernel")
        if k == "ifexp":
            try:
                c = self.ev(t[1])
            except AnalysisError:
                # a condition that is not about numbers (a type / enum / None test): both branches are possible
                c = frozenset({True, False})
            if not is_bool(c):
                c = compare("!=", to_num(c), Abs({ZERO}))
            out = None
            if True in c:
                out = self.ev(t[2])
            if False in c:
                v = self.ev(t[3])
                out = v if out is None else join(out, v)
            return out
        if k == "phi":
            out = None
            for a in sorted(t[1], key=repr):
                if a[0] == "carried":
                    continue
                v = self.ev(a)
                out = v if out is None else join(out, v)
            if out is None:
                raise AnalysisError("loop-carried value without a seed in a kernel")
            return out
        if k == "attr" and t[2] in IDENTITY_ATTRS:
            return self.ev(t[1])
        if k == "sub":
            return self.ev(t[1])  # an element / slice of an array has the classes of the array
        if k == "call":
            return self.call(t)
        raise AnalysisError(f"construct `{show(t)[:80]}` is not modelled by the kernel interpreter")

    def call(self, t: Term) -> Any:
        f, args, kwargs = t[1], t[2], dict(t[3])
        if f[0] == "global":
            name = f[1]
            if name in IDENTITY_CALLS and args:
                return self.ev(args[0])
            short = name.split(".")[-1]
            if name.startswith("numpy.") or name in ("abs", "min", "max", "math.sqrt", "math.exp", "math.log", "pow"):
                return self.numpy(short, args, kwargs)
            raise AnalysisError(f"call to {name} is not modelled by the kernel interpreter")
        if f[0] == "attr":
            recv, meth = f[1], f[2]
            if meth in IDENTITY_METHODS:
                return self.ev(recv)
            if meth in ("sum", "mean", "max", "min", "cumsum", "prod"):
                v = to_num(self.ev(recv))
                return v if meth in ("max", "min") else Abs(v | (FINITE if v & FINITE else set()) | ({NAN} if {PINF, NINF} <= v else set()))
            if meth in ("membership", "tsukamoto") and recv[0] == "call" and recv[1][0] == "global":
                return self.inline_term_method(recv, meth, args)
        raise AnalysisError(f"call `{show(t)[:80]}` is not modelled by the kernel interpreter")

    def inline_term_method(self, ctor: Term, meth: str, args: tuple) -> Any:
        if self.depth <= 0:
            raise AnalysisError("nested term construction too deep")
        cname = ctor[1][1].split(".")[-1]
        cls = self.p.classes.get(cname)
        if cls is None:
            raise AnalysisError(f"nested construction of unknown class {cname}")
        fn = cls.lookup(meth)
        init = cls.lookup("__init__")
        if fn is None or init is None:
            raise AnalysisError(f"{cname}.{meth} not found")
        bound: dict[str, Any] = {}
        names = [x.name for x in init.params if x.name != "self"]
        defaults = {x.name: x.default for x in init.params}
        for nm, a in list(zip(names, ctor[2])) + list(ctor[3]):
            if a[0] == "const" and isinstance(a[1], str):
                continue  # the name of the term (or another text): not a number, and no kernel reads it as one
            bound[nm] = self.ev(a)
        argval = self.ev(args[0])
        xname = fn.params[1].name
        outer = self

        def env(t: Term) -> Any:
            if t == ("param", xname):
                return argval
            if t[0] == "attr" and t[1] == ("param", "self"):
                if t[2] in bound:
                    return bound[t[2]]
                d = defaults.get(t[2])
                if d is not None:
                    import ast as _ast

                    if isinstance(d, _ast.Constant) and isinstance(d.value, (int, float)):
                        return Abs({classify(float(d.value))})
                    if isinstance(d, _ast.Name) and d.id == "nan":
                        return Abs({NAN})
                return Abs(FINITE)
            return None

        sub = Evaluator(self.p, env, self.depth - 1)
        return sub.ev(return_term(self.p, cls, meth))

    def numpy(self, short: str, args: tuple, kwargs: dict) -> Any:
        A = [self.ev(a) for a in args]
        n = [to_num(a) for a in A]
        if short == "where" and len(A) == 3:
            c = A[0]
            if not is_bool(c):
                c = compare("!=", to_num(c), Abs({ZERO}))
            out = None
            if True in c:
                out = A[1]
            if False in c:
                out = A[2] if out is None else join(out, A[2])
            return out
        if short == "isnan":
            return frozenset({x == NAN for x in n[0]})
        if short == "isfinite":
            return frozenset({x in FINITE for x in n[0]})
        if short == "isinf":
            return frozenset({x in (PINF, NINF) for x in n[0]})
        if short in ("sqrt",):
            return SQRT(n[0])
        if short in ("square",):
            return SQUARE(n[0])
        if short in ("exp",):
            return EXP(n[0])
        if short in ("log",):
            return LOG(n[0])
        if short in ("cos", "sin"):
            return COS(n[0])
        if short in ("abs", "absolute", "fabs"):
            return ABSV(n[0])
        if short in ("negative",):
            return NEGATE(n[0])
        if short in ("sign",):
            return SIGN(n[0])
        if short in ("power", "float_power", "pow"):
            return POW(n[0], n[1])
        if short in ("maximum", "max") and len(n) == 2:
            return MAXIMUM(n[0], n[1])
        if short in ("minimum", "min") and len(n) == 2:
            return MINIMUM(n[0], n[1])
        if short in ("fmax", "fmin") and len(n) == 2:
            r = (MAXIMUM if short == "fmax" else MINIMUM)(Abs(n[0] - {NAN}) or n[1], Abs(n[1] - {NAN}) or n[0])
            return Abs(r | ({NAN} if NAN in n[0] and NAN in n[1] else set()))
        if short == "interp":
            x = n[0]
            out = set()
            if NAN in x:
                out.add(NAN)
            if x - {NAN}:
                out |= set(to_num(self.ev(args[2])))
            return Abs(out)
        if short == "full_like":
            v = kwargs.get("fill_value")
            return to_num(self.ev(v if v is not None else args[1]))
        if short in ("nan_to_num",):
            return Abs((n[0] - {NAN, PINF, NINF}) | {ZERO, POS})
        if short in ("clip",):
            return Abs(n[0] | FINITE) if {PINF, NINF} & n[0] else n[0]
        if short in ("logical_and", "logical_or") and len(A) == 2 and is_bool(A[0]) and is_bool(A[1]):
            return b_and(A[0], A[1]) if short == "logical_and" else b_or(A[0], A[1])
        if short == "logical_not" and is_bool(A[0]):
            return b_not(A[0])
        if short == "isclose":
            return BOTH
        raise AnalysisError(f"numpy.{short} is not modelled by the kernel interpreter")


def inline_private_helpers(p: Program, t: Term, depth: int = 2) -> Term:
    """Calls of private module-level helpers of the package (`_degrees(x)`) replaced by what the helper returns (all its return values joined), so that
    what it does - or does not do - to the operand is seen by the rules that read a kernel."""
    import ast

    from .npcanon import desugar
    from .sym import phi

    def helpers(u: Term, depth: int) -> Term:
        if not isinstance(u, tuple):
            return u
        if u and u[0] == "call" and isinstance(u[1], tuple) and u[1][0] == "global" and isinstance(u[1][1], str) and u[1][1].startswith("fuzzylite.") and depth > 0:
            name = u[1][1].split(".")[-1]
            hf = p.functions.get(name)
            if hf is not None and hf.cls is None and name.startswith("_") and hf.module.name == ".".join(u[1][1].split(".")[:-1]) and len(hf.params) == len(u[2]) and not u[3]:
                hr = Resolver(p, hf)
                hrets = [n for n in hr.cfg.stmt_nodes() if isinstance(n.ast, ast.Return) and n.ast.value is not None]
                if hrets:
                    body = desugar(phi([hr.term(n.ast.value, n) for n in hrets]))
                    bound = {("param", q.name): helpers(a, depth) for q, a in zip(hf.params, u[2])}

                    def subst(v: Term) -> Term:
                        if isinstance(v, tuple) and v and isinstance(v[0], str):
                            return bound[v] if v in bound else tuple(subst(x) for x in v)
                        return tuple(subst(x) for x in v) if isinstance(v, tuple) else v

                    return helpers(subst(body), depth - 1)
        return tuple(helpers(x, depth) for x in u)

    return helpers(t, depth)


def inline_self_methods(p: Program, cls: ClassInfo, t: Term, exclude: tuple[str, ...] = (), depth: int = 2, strict: bool = False) -> Term:
    """Calls `self.m(a, b)` of methods of the same class that are a single return statement replaced by what they return (parameters substituted).
    `strict`: a call of a method of the class with statements of its own, whose result the term depends on, is an AnalysisError (what it computes - and
    what it keeps - is not visible in a term)."""
    import ast

    from .npcanon import desugar

    def go(u: Term, depth: int) -> Term:
        if not isinstance(u, tuple):
            return u
        if u and u[0] == "call" and isinstance(u[1], tuple) and len(u[1]) == 3 and u[1][:2] == ("attr", ("param", "self")) and u[1][2] not in exclude and not u[3]:
            m = cls.lookup(u[1][2])
            if m is not None and not m.decorators and len(m.params) == len(u[2]) + 1:
                body = [b for b in m.node.body if not (isinstance(b, ast.Expr) and isinstance(b.value, ast.Constant))]
                if len(body) == 1 and isinstance(body[0], ast.Return) and body[0].value is not None and depth > 0:
                    hr = Resolver(p, m)
                    n = next(n_ for n_ in hr.cfg.stmt_nodes() if isinstance(n_.ast, ast.Return))
                    bt = desugar(hr.term(n.ast.value, n))
                    bound = {("param", q.name): go(a, depth) for q, a in zip(m.params[1:], u[2])}

                    def subst(v: Term) -> Term:
                        if isinstance(v, tuple) and v and isinstance(v[0], str):
                            return bound[v] if v in bound else tuple(subst(x) for x in v)
                        return tuple(subst(x) for x in v) if isinstance(v, tuple) else v

                    return go(subst(bt), depth - 1)
                if strict:
                    raise AnalysisError(f"{cls.qualname}: the value depends on self.{u[1][2]}(...), a helper with statements of its own: what it computes (and keeps) is outside "
                                        "the canonical-form model")
        return tuple(go(x, depth) for x in u)

    return go(t, depth)


def return_term(p: Program, cls: ClassInfo, meth: str) -> Term:
    """Resolved term of the (single) value returned by cls.meth."""
    import ast

    cache = p.__dict__.setdefault("_ret_cache", {})
    key = (cls.qualname, meth)
    if key in cache:
        return cache[key]
    fn = cls.lookup(meth)
    if fn is None:
        raise AnalysisError(f"anchor vanished: {cls.qualname}.{meth}")
    r = Resolver(p, fn)
    rets = [n for n in r.cfg.stmt_nodes() if isinstance(n.ast, ast.Return) and n.ast.value is not None]
    if not rets:
        raise AnalysisError(f"{cls.qualname}.{meth} returns nothing")
    from .sym import phi

    from .npcanon import desugar

    t = desugar(phi([r.term(n.ast.value, n) for n in rets]))  # np.less_equal(a, b) is a <= b, np.logical_and is &, ...

    # accessor helpers of the same class (`self.x()` -> `self.values[:, 0]`): a call without arguments of a method that is a single return statement
    def accessors(u: Term, depth: int = 2) -> Term:
        if not isinstance(u, tuple):
            return u
        if u and u[0] == "call" and isinstance(u[1], tuple) and u[1][:2] == ("attr", ("param", "self")) and u[2] == () and u[3] == () and depth > 0 and u[1][2] != meth:
            m = cls.lookup(u[1][2])
            if m is not None and len(m.params) == 1 and not m.decorators:
                body = [b for b in m.node.body if not (isinstance(b, ast.Expr) and isinstance(b.value, ast.Constant))]
                if len(body) == 1 and isinstance(body[0], ast.Return) and body[0].value is not None:
                    return accessors(return_term(p, cls, u[1][2]), depth - 1)
        return tuple(accessors(x, depth) for x in u)

    t = accessors(t)

    t = inline_private_helpers(p, t)
    cache[key] = t
    return t


def show_abs(a: Any) -> str:
    if is_bool(a):
        return "{" + ",".join(str(x) for x in sorted(a)) + "}"
    order = [NAN, NINF, NEG, ZERO, POS, PINF]
    return "{" + ",".join(c for c in order if c in a) + "}"
