"""Program model: modules, classes (with resolved MRO), methods, properties, constructors.

The model is built from source text only (ast); the analysed package is never imported.
"""

from __future__ import annotations

import ast
import hashlib
import os
from dataclasses import dataclass, field


class AnalysisError(Exception):
    """The analysis could not be carried out (vanished anchor, unknown construct).

    Never reported as a violation: the CLI turns it into `ANALYSIS-ERROR` / exit 2.
    """


def unparse(node: ast.AST | None) -> str:
    if node is None:
        return "<none>"
    try:
        return ast.unparse(node)
    except Exception:  # pragma: no cover
        return f"<{type(node).__name__}>"


def dotted(node: ast.AST) -> str | None:
    """Return 'a.b.c' for Name/Attribute chains, else None."""
    parts = []
    while isinstance(node, ast.Attribute):
        parts.append(node.attr)
        node = node.value
    if isinstance(node, ast.Name):
        parts.append(node.id)
        return ".".join(reversed(parts))
    return None


@dataclass
class Param:
    name: str
    default: ast.AST | None
    kind: str  # 'posonly' | 'pos' | 'vararg' | 'kwonly' | 'kwarg'
    annotation: ast.AST | None = None


@dataclass
class FunctionInfo:
    name: str
    qualname: str  # e.g. 'Engine.process', 'scalar'
    module: "ModuleInfo"
    node: ast.FunctionDef
    cls: "ClassInfo | None" = None
    decorators: list[str] = field(default_factory=list)

    @property
    def file(self) -> str:
        return self.module.relpath

    @property
    def lineno(self) -> int:
        return self.node.lineno

    def loc(self, node: ast.AST | None = None) -> str:
        n = node if node is not None and hasattr(node, "lineno") else self.node
        return f"{self.file}:{n.lineno}"

    @property
    def params(self) -> list[Param]:
        a = self.node.args
        out: list[Param] = []
        pos = list(a.posonlyargs) + list(a.args)
        defaults = [None] * (len(pos) - len(a.defaults)) + list(a.defaults)
        for i, (arg, d) in enumerate(zip(pos, defaults)):
            out.append(Param(arg.arg, d, "posonly" if i < len(a.posonlyargs) else "pos", arg.annotation))
        if a.vararg:
            out.append(Param(a.vararg.arg, None, "vararg", a.vararg.annotation))
        for arg, d in zip(a.kwonlyargs, a.kw_defaults):
            out.append(Param(arg.arg, d, "kwonly", arg.annotation))
        if a.kwarg:
            out.append(Param(a.kwarg.arg, None, "kwarg", a.kwarg.annotation))
        return out

    @property
    def is_static(self) -> bool:
        return "staticmethod" in self.decorators

    @property
    def is_classmethod(self) -> bool:
        return "classmethod" in self.decorators

    @property
    def is_abstract(self) -> bool:
        return "abstractmethod" in self.decorators

    @property
    def analysis_node(self) -> ast.FunctionDef:
        """The function's AST with single-use private helpers inlined (see sa/inline.py); used for CFG construction."""
        cached = self.__dict__.get("_anode")
        if cached is None:
            prog = getattr(self.module, "program", None)
            node, inl = self.node, []
            if prog is not None and self.cls is not None:
                from .inline import inlined_function

                try:
                    node, inl = inlined_function(prog, self)
                except RecursionError:  # pragma: no cover
                    node, inl = self.node, []
            if prog is not None and any(isinstance(x, ast.For) and isinstance(x.iter, (ast.Tuple, ast.List, ast.Name)) for x in ast.walk(node)):
                import copy as _copy

                from .inline import unrolled

                node = unrolled(_copy.deepcopy(node) if node is self.node else node)
            if prog is not None and any(isinstance(x, ast.For) and isinstance(x.iter, ast.Call) and isinstance(x.iter.func, ast.Name) and x.iter.func.id == "range"
                                        for x in ast.walk(node)):
                import copy as _copy

                from .inline import index_loops_normalised

                node = index_loops_normalised(_copy.deepcopy(node) if node is self.node else node)
            if prog is not None and any(isinstance(x, ast.For) and len(x.body) == 1 for x in ast.walk(node)):
                import copy as _copy

                from .inline import loops_as_comprehensions

                node = loops_as_comprehensions(_copy.deepcopy(node) if node is self.node else node)
            cached = (node, inl)
            self.__dict__["_anode"] = cached
        return cached[0]

    @property
    def inlined_helpers(self) -> list[str]:
        self.analysis_node
        return self.__dict__["_anode"][1]

    @property
    def body(self) -> list[ast.stmt]:
        """Body without the docstring (helpers inlined)."""
        b = self.analysis_node.body
        if b and isinstance(b[0], ast.Expr) and isinstance(b[0].value, ast.Constant) and isinstance(b[0].value.value, str):
            return b[1:]
        return b

    def __repr__(self) -> str:
        return f"<fn {self.qualname} {self.file}:{self.lineno}>"


@dataclass
class ClassInfo:
    name: str
    qualname: str
    module: "ModuleInfo"
    node: ast.ClassDef
    base_names: list[str]
    outer: "ClassInfo | None" = None
    methods: dict[str, FunctionInfo] = field(default_factory=dict)
    getters: dict[str, FunctionInfo] = field(default_factory=dict)
    setters: dict[str, FunctionInfo] = field(default_factory=dict)
    overloads: dict[str, list[FunctionInfo]] = field(default_factory=dict)
    class_attrs: dict[str, ast.AST] = field(default_factory=dict)
    inner: dict[str, "ClassInfo"] = field(default_factory=dict)
    bases: list["ClassInfo"] = field(default_factory=list)
    external_bases: list[str] = field(default_factory=list)
    mro: list["ClassInfo"] = field(default_factory=list)

    @property
    def file(self) -> str:
        return self.module.relpath

    def loc(self) -> str:
        return f"{self.file}:{self.node.lineno}"

    def lookup(self, name: str) -> FunctionInfo | None:
        for c in self.mro:
            if name in c.methods:
                return c.methods[name]
        return None

    def lookup_getter(self, name: str) -> FunctionInfo | None:
        for c in self.mro:
            if name in c.getters:
                return c.getters[name]
        return None

    def lookup_setter(self, name: str) -> FunctionInfo | None:
        for c in self.mro:
            if name in c.setters:
                return c.setters[name]
            if name in c.getters:  # read-only property shadows
                return None
        return None

    def lookup_class_attr(self, name: str) -> ast.AST | None:
        for c in self.mro:
            if name in c.class_attrs:
                return c.class_attrs[name]
        return None

    def defines(self, name: str) -> bool:
        return name in self.methods

    def is_subclass_of(self, other: "ClassInfo | str") -> bool:
        oname = other if isinstance(other, str) else other.qualname
        return any(c.qualname == oname for c in self.mro)

    @property
    def is_abstract(self) -> bool:
        """A class is abstract when some abstractmethod in its MRO is not overridden concretely."""
        seen: set[str] = set()
        for c in self.mro:
            for n, m in c.methods.items():
                if n in seen:
                    continue
                seen.add(n)
                if m.is_abstract:
                    return True
        return False

    @property
    def is_enum(self) -> bool:
        return any(b.endswith("Enum") or b.endswith("Flag") for c in self.mro for b in c.external_bases)

    def __repr__(self) -> str:
        return f"<class {self.qualname}>"


@dataclass
class ModuleInfo:
    name: str  # 'fuzzylite.term'
    relpath: str  # 'fuzzylite/term.py'
    source: str
    tree: ast.Module
    sha256: str
    imports: dict[str, str] = field(default_factory=dict)  # local name -> dotted target
    functions: dict[str, FunctionInfo] = field(default_factory=dict)
    classes: dict[str, ClassInfo] = field(default_factory=dict)
    assigns: dict[str, ast.AST] = field(default_factory=dict)  # module-level NAME = value
    all_names: list[str] | None = None


def _decorator_names(node: ast.FunctionDef | ast.ClassDef) -> list[str]:
    out = []
    for d in node.decorator_list:
        target = d.func if isinstance(d, ast.Call) else d
        name = dotted(target)
        if name:
            out.append(name.split(".")[-1] if not name.endswith((".setter", ".getter", ".deleter")) else name)
    return out


class Program:
    """All modules of the analysed package, parsed from `root` (with optional in-memory overrides)."""

    def __init__(self, root: str = "/repo", package: str = "fuzzylite", overrides: dict[str, str] | None = None):
        self.root = root
        self.package = package
        self.overrides = overrides or {}
        self.modules: dict[str, ModuleInfo] = {}
        self.classes: dict[str, ClassInfo] = {}
        self.functions: dict[str, FunctionInfo] = {}
        self._load()
        self._link()

    # ------------------------------------------------------------------ loading
    def read(self, relpath: str) -> str:
        if relpath in self.overrides:
            return self.overrides[relpath]
        with open(os.path.join(self.root, relpath), encoding="utf-8") as f:
            return f.read()

    def _load(self) -> None:
        pkgdir = os.path.join(self.root, self.package)
        if not os.path.isdir(pkgdir):
            raise AnalysisError(f"package directory not found: {pkgdir}")
        names = sorted(n for n in os.listdir(pkgdir) if n.endswith(".py"))
        for rel in self.overrides:
            base = os.path.basename(rel)
            if os.path.dirname(rel) == self.package and base not in names:
                names.append(base)
        for n in names:
            rel = f"{self.package}/{n}"
            src = self.read(rel)
            try:
                tree = ast.parse(src, filename=rel)
                if "match " in src:
                    from .inline import DesugarMatch

                    tree = DesugarMatch().visit(tree)  # literal `match` statements are read as the if / elif chains they abbreviate
            except SyntaxError as ex:
                raise AnalysisError(f"{rel} does not parse: {ex}") from None
            modname = self.package if n == "__init__.py" else f"{self.package}.{n[:-3]}"
            mod = ModuleInfo(modname, rel, src, tree, hashlib.sha256(src.encode()).hexdigest())
            mod.program = self  # type: ignore[attr-defined]
            self.modules[modname] = mod
            self._index_module(mod)

    def _index_module(self, mod: ModuleInfo) -> None:
        for stmt in ast.walk(mod.tree):
            # imports anywhere (function-local imports included) feed the alias table
            if isinstance(stmt, ast.Import):
                for a in stmt.names:
                    mod.imports.setdefault(a.asname or a.name.split(".")[0], a.name if a.asname else a.name.split(".")[0])
            elif isinstance(stmt, ast.ImportFrom):
                base = stmt.module or ""
                if stmt.level:
                    pkg = mod.name if mod.relpath.endswith("__init__.py") else mod.name.rsplit(".", 1)[0]
                    for _ in range(stmt.level - 1):
                        pkg = pkg.rsplit(".", 1)[0]
                    base = f"{pkg}.{base}" if base else pkg
                for a in stmt.names:
                    if a.name == "*":
                        continue
                    mod.imports.setdefault(a.asname or a.name, f"{base}.{a.name}")
        for stmt in mod.tree.body:
            if isinstance(stmt, ast.FunctionDef):
                fi = FunctionInfo(stmt.name, stmt.name, mod, stmt, None, _decorator_names(stmt))
                if "overload" in fi.decorators:
                    continue
                mod.functions[stmt.name] = fi
                self.functions[stmt.name] = fi
            elif isinstance(stmt, ast.ClassDef):
                self._index_class(mod, stmt, None)
            elif isinstance(stmt, ast.Assign):
                for t in stmt.targets:
                    if isinstance(t, ast.Name):
                        mod.assigns[t.id] = stmt.value
                        if t.id == "__all__" and isinstance(stmt.value, (ast.List, ast.Tuple)):
                            mod.all_names = [e.value for e in stmt.value.elts if isinstance(e, ast.Constant)]
            elif isinstance(stmt, ast.AnnAssign) and isinstance(stmt.target, ast.Name) and stmt.value is not None:
                mod.assigns[stmt.target.id] = stmt.value

    def _index_class(self, mod: ModuleInfo, node: ast.ClassDef, outer: ClassInfo | None) -> ClassInfo:
        qual = f"{outer.qualname}.{node.name}" if outer else node.name
        bases = []
        for b in node.bases:
            if isinstance(b, ast.Subscript):  # Generic[T], ConstructionFactory[Activation]
                b = b.value
            d = dotted(b)
            if d:
                bases.append(d)
        ci = ClassInfo(node.name, qual, mod, node, bases, outer)
        if qual in self.classes:
            raise AnalysisError(f"duplicate class {qual} in {mod.relpath} and {self.classes[qual].file}")
        self.classes[qual] = ci
        if outer:
            outer.inner[node.name] = ci
        else:
            mod.classes[node.name] = ci
        for stmt in node.body:
            if isinstance(stmt, ast.FunctionDef):
                decs = _decorator_names(stmt)
                fi = FunctionInfo(stmt.name, f"{qual}.{stmt.name}", mod, stmt, ci, decs)
                if "overload" in decs:
                    ci.overloads.setdefault(stmt.name, []).append(fi)
                elif "property" in decs:
                    ci.getters[stmt.name] = fi
                elif any(d.endswith(".setter") for d in decs):
                    fi.qualname = f"{qual}.{stmt.name}.setter"
                    ci.setters[stmt.name] = fi
                else:
                    ci.methods[stmt.name] = fi
                self.functions[fi.qualname] = fi
            elif isinstance(stmt, ast.ClassDef):
                self._index_class(mod, stmt, ci)
            elif isinstance(stmt, ast.Assign):
                for t in stmt.targets:
                    if isinstance(t, ast.Name):
                        ci.class_attrs[t.id] = stmt.value
            elif isinstance(stmt, ast.AnnAssign) and isinstance(stmt.target, ast.Name) and stmt.value is not None:
                ci.class_attrs[stmt.target.id] = stmt.value
        return ci

    # ------------------------------------------------------------------ linking
    def _link(self) -> None:
        for ci in self.classes.values():
            for b in ci.base_names:
                target = self.resolve_class_name(b, ci.module, ci.outer)
                if target is not None:
                    ci.bases.append(target)
                else:
                    ci.external_bases.append(b)
        memo: dict[str, list[ClassInfo]] = {}

        def merge(seqs: list[list[ClassInfo]]) -> list[ClassInfo]:
            res: list[ClassInfo] = []
            seqs = [list(s) for s in seqs if s]
            while seqs:
                for s in seqs:
                    cand = s[0]
                    if not any(cand in t[1:] for t in seqs):
                        break
                else:
                    raise AnalysisError("inconsistent MRO")
                res.append(cand)
                seqs = [[x for x in t if x is not cand] for t in seqs]
                seqs = [t for t in seqs if t]
            return res

        def mro(c: ClassInfo, stack: tuple[str, ...] = ()) -> list[ClassInfo]:
            if c.qualname in memo:
                return memo[c.qualname]
            if c.qualname in stack:
                raise AnalysisError(f"cyclic inheritance at {c.qualname}")
            lin = [c] + merge([mro(b, stack + (c.qualname,)) for b in c.bases] + [list(c.bases)])
            memo[c.qualname] = lin
            return lin

        for ci in self.classes.values():
            ci.mro = mro(ci)

    def resolve_class_name(self, name: str, mod: ModuleInfo, scope: ClassInfo | None = None) -> ClassInfo | None:
        """Resolve a (possibly dotted) class reference as seen from `mod` (inside class `scope`)."""
        parts = name.split(".")
        head = parts[0]
        cur: ClassInfo | None = None
        s = scope
        while s is not None and cur is None:
            if head in s.inner:
                cur = s.inner[head]
            elif s.name == head:
                cur = s
            s = s.outer
        if cur is None and head in mod.classes:
            cur = mod.classes[head]
        if cur is None and head in mod.imports:
            tgt = mod.imports[head]
            tmod, _, tname = tgt.rpartition(".")
            if tmod in self.modules and tname in self.modules[tmod].classes:
                cur = self.modules[tmod].classes[tname]
            elif tmod == self.package:  # `from . import X` re-exported through __init__ star imports
                for m in self.modules.values():
                    if tname in m.classes:
                        cur = m.classes[tname]
                        break
        if cur is None:
            return None
        for p in parts[1:]:
            if p in cur.inner:
                cur = cur.inner[p]
            else:
                return None
        return cur

    # ------------------------------------------------------------------ queries
    def cls(self, qualname: str) -> ClassInfo:
        if qualname not in self.classes:
            raise AnalysisError(f"anchor vanished: class {qualname} not found in package {self.package}")
        return self.classes[qualname]

    def func(self, qualname: str) -> FunctionInfo:
        """'Engine.process' (resolved through the MRO), 'Variable.value.setter', or a module-level function name."""
        if qualname in self.functions:
            return self.functions[qualname]
        if "." in qualname:
            cname, _, mname = qualname.rpartition(".")
            kind = None
            if mname in ("setter", "getter"):
                kind = mname
                cname, _, mname = cname.rpartition(".")
            if cname in self.classes:
                c = self.classes[cname]
                f = (
                    c.lookup_setter(mname)
                    if kind == "setter"
                    else (c.lookup_getter(mname) if kind == "getter" else (c.lookup(mname) or c.lookup_getter(mname)))
                )
                if f is not None:
                    return f
        raise AnalysisError(f"anchor vanished: function {qualname} not found in package {self.package}")

    def own_func(self, cname: str, mname: str) -> FunctionInfo | None:
        c = self.cls(cname)
        return c.methods.get(mname)

    def subclasses(self, base: str, concrete_only: bool = False) -> list[ClassInfo]:
        b = self.cls(base)
        out = [c for c in self.classes.values() if c is not b and b in c.mro]
        if concrete_only:
            out = [c for c in out if not c.is_abstract]
        return sorted(out, key=lambda c: (c.file, c.node.lineno))

    def module_of(self, relname: str) -> ModuleInfo:
        key = f"{self.package}.{relname}" if relname else self.package
        if key not in self.modules:
            raise AnalysisError(f"anchor vanished: module {key}")
        return self.modules[key]

    def all_functions(self) -> list[FunctionInfo]:
        return sorted(self.functions.values(), key=lambda f: (f.file, f.lineno))

    def digests(self, relpaths: list[str] | None = None) -> dict[str, str]:
        return {m.relpath: m.sha256[:16] for m in self.modules.values() if relpaths is None or m.relpath in relpaths}

    def resolve_global(self, name: str, mod: ModuleInfo) -> str:
        """Canonical dotted name of a module-level name as seen from `mod` ('np' -> 'numpy')."""
        head, _, rest = name.partition(".")
        if head in mod.imports:
            tgt = mod.imports[head]
        elif head in mod.classes or head in mod.functions or head in mod.assigns:
            tgt = f"{mod.name}.{head}"
        else:
            tgt = head
        if tgt == "Op" or tgt.endswith(".Op"):
            tgt = f"{self.package}.operation.Operation"
        return f"{tgt}.{rest}" if rest else tgt
