"""Static analysis of pyfuzzylite for properties C01-C20.

Nothing in this package imports or executes the code under analysis: every
module only parses `/repo` (or an in-memory variant of it) with `ast`.
"""
