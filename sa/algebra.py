"""Rational-function normal forms over symbols (a small canonicaliser, no solver).

A value is kept as a pair of multivariate polynomials with rational coefficients (numerator, denominator). Equality of two
values is decided by cross-multiplication and comparison of canonical polynomials. Transcendental operations are
uninterpreted function symbols (sqrt, exp, log, cos, abs, pow) applied to normal forms, with the rewrites
sqrt(A)**2 -> A, exp(log(A)) -> A, log(exp(A)) -> A and abs(A) -> +-A when the sign of A is known.

This decides identities of the kind `documented closed form == implemented expression` over real arithmetic, piece by piece
(the pieces are the order types of sa.ordertype). Floating-point rounding is outside this model.
"""

from __future__ import annotations

import math
from fractions import Fraction
from typing import Any, Callable

Mono = tuple  # sorted tuple of (symbol, exponent)


def _mono_mul(a: Mono, b: Mono) -> Mono:
    d = dict(a)
    for s, e in b:
        d[s] = d.get(s, 0) + e
    return tuple(sorted(((s, e) for s, e in d.items() if e), key=lambda kv: repr(kv[0])))


class Poly:
    __slots__ = ("t",)

    def __init__(self, terms: dict[Mono, Fraction] | None = None):
        self.t = {m: c for m, c in (terms or {}).items() if c != 0}

    @staticmethod
    def const(c: Any) -> "Poly":
        return Poly({(): Fraction(c)})

    @staticmethod
    def sym(s: Any) -> "Poly":
        return Poly({((s, 1),): Fraction(1)})

    def is_zero(self) -> bool:
        return not self.t

    def is_const(self) -> bool:
        return all(m == () for m in self.t)

    def const_value(self) -> Fraction:
        return self.t.get((), Fraction(0))

    def __add__(self, o: "Poly") -> "Poly":
        d = dict(self.t)
        for m, c in o.t.items():
            d[m] = d.get(m, Fraction(0)) + c
        return Poly(d)

    def __neg__(self) -> "Poly":
        return Poly({m: -c for m, c in self.t.items()})

    def __sub__(self, o: "Poly") -> "Poly":
        return self + (-o)

    def __mul__(self, o: "Poly") -> "Poly":
        d: dict[Mono, Fraction] = {}
        for m1, c1 in self.t.items():
            for m2, c2 in o.t.items():
                m = _mono_mul(m1, m2)
                d[m] = d.get(m, Fraction(0)) + c1 * c2
        return Poly(d)

    def __eq__(self, o: object) -> bool:
        return isinstance(o, Poly) and self.t == o.t

    def __hash__(self) -> int:
        return hash(frozenset(self.t.items()))

    def pow(self, n: int) -> "Poly":
        out = Poly.const(1)
        for _ in range(n):
            out = out * self
        return out

    def symbols(self) -> set:
        return {s for m in self.t for s, _ in m}

    def degree_in(self, s: Any) -> int:
        return max((e for m in self.t for q, e in m if q == s), default=0)

    def evaluate(self, val: Callable[[Any], float]) -> float:
        tot = 0.0
        for m, c in self.t.items():
            v = float(c)
            for s, e in m:
                v *= val(s) ** e
            tot += v
        return tot

    def show(self, name: Callable[[Any], str]) -> str:
        if not self.t:
            return "0"
        parts = []
        for m, c in sorted(self.t.items(), key=lambda kv: repr(kv[0])):
            mon = "*".join(name(s) + (f"^{e}" if e != 1 else "") for s, e in m)
            cs = str(c) if (c != 1 or not mon) else ""
            if c == -1 and mon:
                cs = "-"
            parts.append(f"{cs}{'*' if cs not in ('', '-') and mon else ''}{mon}")
        return " + ".join(parts).replace("+ -", "- ")


class Undefined(Exception):
    """Division by (identically) zero in this piece."""


class Rat:
    __slots__ = ("n", "d")

    def __init__(self, n: Poly, d: Poly | None = None):
        d = d if d is not None else Poly.const(1)
        if d.is_zero():
            raise Undefined("zero denominator")
        if n.is_zero():
            d = Poly.const(1)
        elif not d.is_const():
            # cancel the monomial common to every term of numerator and denominator
            monos = list(n.t) + list(d.t)
            common = dict(monos[0])
            for m in monos[1:]:
                dm = dict(m)
                common = {q: min(e, dm.get(q, 0)) for q, e in common.items() if dm.get(q, 0) > 0}
                if not common:
                    break
            if common:
                def strip(p_: Poly) -> Poly:
                    return Poly({tuple((q, e - common.get(q, 0)) for q, e in m if e - common.get(q, 0) > 0): c for m, c in p_.t.items()})
                n, d = strip(n), strip(d)
        # make a constant denominator 1
        if d.is_const():
            c = d.const_value()
            n = Poly({m: v / c for m, v in n.t.items()})
            d = Poly.const(1)
        self.n, self.d = n, d

    @staticmethod
    def const(c: Any) -> "Rat":
        return Rat(Poly.const(c))

    @staticmethod
    def sym(s: Any) -> "Rat":
        return Rat(Poly.sym(s))

    def __add__(self, o: "Rat") -> "Rat":
        if self.d == o.d:
            return Rat(self.n + o.n, self.d)
        return Rat(self.n * o.d + o.n * self.d, self.d * o.d)

    def __neg__(self) -> "Rat":
        return Rat(-self.n, self.d)

    def __sub__(self, o: "Rat") -> "Rat":
        return self + (-o)

    def __mul__(self, o: "Rat") -> "Rat":
        return Rat(self.n * o.n, self.d * o.d)

    def inverse(self) -> "Rat":
        if self.n.is_zero():
            raise Undefined("division by zero")
        return Rat(self.d, self.n)

    def __truediv__(self, o: "Rat") -> "Rat":
        return self * o.inverse()

    def pow(self, k: int) -> "Rat":
        if k >= 0:
            return Rat(self.n.pow(k), self.d.pow(k))
        return self.inverse().pow(-k)

    def equals(self, o: "Rat") -> bool:
        return (self.n * o.d - o.n * self.d).is_zero()

    def is_zero(self) -> bool:
        return self.n.is_zero()

    def symbols(self) -> set:
        return self.n.symbols() | self.d.symbols()

    def evaluate(self, val: Callable[[Any], float]) -> float:
        d = self.d.evaluate(val)
        n = self.n.evaluate(val)
        if d == 0:
            return float("nan")
        return n / d

    def show(self, name: Callable[[Any], str]) -> str:
        if self.d.is_const() and self.d.const_value() == 1:
            return self.n.show(name)
        return f"({self.n.show(name)}) / ({self.d.show(name)})"


class Fn:
    """An uninterpreted function application used as a symbol."""

    __slots__ = ("name", "args", "ident")

    def __init__(self, name: str, args: tuple, ident: int):
        self.name, self.args, self.ident = name, args, ident

    def __repr__(self) -> str:
        return f"<{self.name}#{self.ident}>"

    def __hash__(self) -> int:
        return hash((self.name, self.ident))

    def __eq__(self, o: object) -> bool:
        return isinstance(o, Fn) and o.name == self.name and o.ident == self.ident


FLOAT_FN: dict[str, Callable[..., float]] = {
    "sqrt": lambda a: math.sqrt(a) if a >= 0 else float("nan"),
    "exp": lambda a: math.exp(a) if a < 700 else float("inf"),
    "log": lambda a: math.log(a) if a > 0 else float("nan"),
    "cos": math.cos,
    "sin": math.sin,
    "abs": abs,
    "pow": lambda a, b: math.pow(a, b) if (a > 0 or float(b).is_integer()) else float("nan"),
}


class Algebra:
    """Context: registry of function symbols (shared by the two sides of a comparison) and a sign oracle for abs()."""

    def __init__(self, sign_of: Callable[[Rat], str | None] | None = None, square_root: Callable[[Rat], Rat | None] | None = None):
        self.fns: list[Fn] = []
        self.sign_of = sign_of or (lambda r: None)
        self.square_root = square_root or (lambda r: None)  # exact root of a perfect square, when the context can factor it

    def fn(self, name: str, *args: Rat) -> Rat:
        args = tuple(self.reduce(a) for a in args)
        if name == "exp" and self._is_fn(args[0], "log") is not None:
            return self._is_fn(args[0], "log").args[0]  # type: ignore[union-attr]
        if name == "log" and self._is_fn(args[0], "exp") is not None:
            return self._is_fn(args[0], "exp").args[0]  # type: ignore[union-attr]
        if name == "exp":
            for f in self.fns:
                if f.name == "log" and args[0].equals(Rat.sym(f)):
                    return f.args[0]
        if name == "log":
            for f in self.fns:
                if f.name == "exp" and args[0].equals(Rat.sym(f)):
                    return f.args[0]
        if name == "sqrt":
            root = self.square_root(args[0])
            if root is not None:
                return root
        if name == "abs":
            s = self.sign_of(args[0])
            if s in ("pos", "zero"):
                return args[0]
            if s == "neg":
                return -args[0]
        if all(a.n.is_const() and a.d.is_const() for a in args):
            # constant folding where the result is exact
            v = [a.n.const_value() / a.d.const_value() for a in args]
            if name == "abs":
                return Rat.const(abs(v[0]))
            if name == "sqrt" and v[0] >= 0:
                r = Fraction(math.isqrt(v[0].numerator), math.isqrt(v[0].denominator))
                if r * r == v[0]:
                    return Rat.const(r)
            if name == "exp" and v[0] == 0:
                return Rat.const(1)
            if name == "log" and v[0] == 1:
                return Rat.const(0)
            if name == "cos" and v[0] == 0:
                return Rat.const(1)
            if name == "sin" and v[0] == 0:
                return Rat.const(0)
            if name == "pow" and v[1].denominator == 1:
                return Rat.const(v[0]).pow(int(v[1]))
        for f in self.fns:
            if f.name == name and len(f.args) == len(args) and all(x.equals(y) for x, y in zip(f.args, args)):
                return Rat.sym(f)
        f = Fn(name, args, len(self.fns))
        self.fns.append(f)
        return Rat.sym(f)

    @staticmethod
    def _is_fn(r: Rat, name: str) -> Fn | None:
        if r.d.is_const() and len(r.n.t) == 1:
            (m, c), = r.n.t.items()
            if c == r.d.const_value() and len(m) == 1 and m[0][1] == 1 and isinstance(m[0][0], Fn) and m[0][0].name == name:
                return m[0][0]
        return None

    def reduce(self, r: Rat) -> Rat:
        """Apply sqrt(A)**2 -> A (and abs(A)**2 -> A**2) until no such power is left."""
        for _ in range(8):
            todo = [s for s in r.symbols() if isinstance(s, Fn) and s.name in ("sqrt", "abs") and max(r.n.degree_in(s), r.d.degree_in(s)) >= 2]
            if not todo:
                return r
            s = todo[0]
            sq = s.args[0] if s.name == "sqrt" else s.args[0] * s.args[0]
            r = self._subst_square(r.n, s, sq) / self._subst_square(r.d, s, sq)
        return r

    @staticmethod
    def _subst_square(p: Poly, s: Fn, sq: Rat) -> Rat:
        out = Rat.const(0)
        for m, c in p.t.items():
            e = dict(m).get(s, 0)
            rest = tuple((q, k) for q, k in m if q != s)
            term = Rat(Poly({rest: c}))
            if e % 2:
                term = term * Rat.sym(s)
            if e // 2:
                term = term * sq.pow(e // 2)
            out = out + term
        return out

    # numeric evaluation (only used to confirm that two different normal forms really denote different values)
    def evaluate(self, r: Rat, val: dict[Any, float]) -> float:
        cache: dict[Any, float] = {}

        def v(s: Any) -> float:
            if isinstance(s, Fn):
                if s not in cache:
                    args = [a.evaluate(v) for a in s.args]
                    try:
                        cache[s] = FLOAT_FN[s.name](*args)
                    except (ValueError, OverflowError, ZeroDivisionError):
                        cache[s] = float("nan")
                return cache[s]
            return val[s]

        try:
            return r.evaluate(v)
        except (OverflowError, ZeroDivisionError):
            return float("nan")

    def name(self, short: dict[Any, str]) -> Callable[[Any], str]:
        def nm(s: Any) -> str:
            if isinstance(s, Fn):
                return f"{s.name}({', '.join(a.show(nm) for a in s.args)})"
            return short.get(s, str(s))

        return nm
