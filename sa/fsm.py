"""Extraction of the parser state machines by abstract interpretation.

The three hand-written parsers (Rule.parse, Antecedent.load, Consequent.load) keep a small integer
state, test it with `==` / `&`, and otherwise look at the current token only through a handful of
conditions ("is a variable", "is the keyword is", "is a hedge", ...). The interpreter below executes
the loop body on an abstract machine state

    (state value: concrete int, proposition: None | set, operand-stack depth: 0,1,2,3+, extra flags)

for every *token class* (an assignment of truth values to the token conditions), which yields the
exact transition relation of the parser. The code after the loop is interpreted once per reachable
state to obtain acceptance. Nothing is executed; conditions that are neither about the state nor a
recognised token condition abort the analysis (fail closed).
"""

from __future__ import annotations

import ast
from dataclasses import dataclass, field
from typing import Any, Callable

from .cfg import CFG, Node
from .pm import AnalysisError, FunctionInfo, Program, dotted, unparse
from .sym import Resolver, Term, show, walk


class Unknown(Exception):
    pass


class Outcome(Exception):
    def __init__(self, kind: str, detail: str = "", node: Node | None = None):
        self.kind = kind  # 'raise:<Class>' | 'internal:<Class>'
        self.detail = detail
        self.node = node


@dataclass(frozen=True)
class MState:
    ints: tuple[tuple[str, int], ...]  # concrete integer variables (the state variable)
    prop: bool  # proposition is set
    depth: int  # operand stack depth class 0,1,2,3(=3 or more)
    flags: tuple[tuple[str, bool], ...] = ()  # extra abstract booleans (e.g. antecedent tokens seen)

    def get(self, name: str) -> int:
        return dict(self.ints)[name]

    def flag(self, name: str) -> bool:
        return dict(self.flags).get(name, False)


@dataclass
class Machine:
    fn: FunctionInfo
    resolver: Resolver
    consts: dict[str, int]  # flag constants
    state_vars: set[str]
    prop_var: str | None
    stack_var: str | None
    atom_of: Callable[[ast.AST, Node], str | None]  # token-condition classifier
    list_flags: dict[str, str] = field(default_factory=dict)  # local list name -> flag set when appended to
    truthy_lists: bool = True


def flag_constants(fn: FunctionInfo) -> dict[str, int]:
    """`a, b, c = (2**i for i in range(3))` or `a, b, c = range(3)` -> {a:1,b:2,c:4} / {a:0,b:1,c:2}."""
    out: dict[str, int] = {}
    for s in ast.walk(fn.analysis_node):
        if isinstance(s, ast.Assign) and len(s.targets) == 1 and isinstance(s.targets[0], ast.Tuple) and \
                all(isinstance(e, ast.Name) for e in s.targets[0].elts):
            names = [e.id for e in s.targets[0].elts]  # type: ignore[union-attr]
            v = s.value
            vals: list[int] | None = None
            if isinstance(v, ast.Call) and isinstance(v.func, ast.Name) and v.func.id == "range" and len(v.args) == 1 and \
                    isinstance(v.args[0], ast.Constant):
                vals = list(range(v.args[0].value))
            elif isinstance(v, (ast.GeneratorExp, ast.ListComp)) and len(v.generators) == 1 and not v.generators[0].ifs:
                g = v.generators[0]
                if isinstance(g.iter, ast.Call) and isinstance(g.iter.func, ast.Name) and g.iter.func.id == "range" and \
                        len(g.iter.args) == 1 and isinstance(g.iter.args[0], ast.Constant) and isinstance(g.target, ast.Name):
                    n = g.iter.args[0].value
                    try:
                        vals = [int(_const_arith(v.elt, {g.target.id: i})) for i in range(n)]
                    except Unknown:
                        vals = None
            elif isinstance(v, (ast.Tuple, ast.List)) and all(isinstance(e, ast.Constant) and isinstance(e.value, int) for e in v.elts):
                vals = [e.value for e in v.elts]  # type: ignore[union-attr]
            if vals is not None and len(vals) == len(names):
                out.update(zip(names, vals))
    return out


def _const_arith(e: ast.AST, env: dict[str, int]) -> int:
    if isinstance(e, ast.Constant) and isinstance(e.value, int):
        return e.value
    if isinstance(e, ast.Name) and e.id in env:
        return env[e.id]
    if isinstance(e, ast.BinOp):
        a, b = _const_arith(e.left, env), _const_arith(e.right, env)
        if isinstance(e.op, ast.Pow):
            return a ** b
        if isinstance(e.op, ast.LShift):
            return a << b
        if isinstance(e.op, ast.Mult):
            return a * b
        if isinstance(e.op, ast.Add):
            return a + b
        if isinstance(e.op, ast.BitOr):
            return a | b
        if isinstance(e.op, ast.BitAnd):
            return a & b
    raise Unknown(unparse(e))


class Interp:
    def __init__(self, m: Machine):
        self.m = m
        self.cfg: CFG = m.resolver.cfg
        self.atoms_seen: set[str] = set()

    # ------------------------------------------------------------------ expression evaluation
    def ev(self, e: ast.AST, node: Node, st: dict[str, Any], tok: dict[str, bool]) -> Any:
        m = self.m
        if isinstance(e, ast.Constant) and isinstance(e.value, (int, bool)):
            return e.value
        if isinstance(e, ast.Name):
            if e.id in m.consts:
                return m.consts[e.id]
            if e.id in st["ints"]:
                return st["ints"][e.id]
            if e.id == m.stack_var:
                return ("container", st["depth"])
            if e.id == m.prop_var:
                return ("object", st["prop"])
            if e.id in m.list_flags:
                return ("container", 1 if st["flags"].get(m.list_flags[e.id], False) else 0)
            # a local temporary holding a state test / token condition (`is_final = state & (...)`): evaluate its definition
            defs = [d for d in self.cfg.defs_reaching(e.id, node) if d.kind == "value" and d.value is not None]
            if len(defs) == 1 and len(self.cfg.defs_reaching(e.id, node)) == 1 and defs[0].node is not node and not getattr(self, "_in_temp", False):
                self._in_temp = True
                try:
                    return self.ev(defs[0].value, defs[0].node, st, tok)
                finally:
                    self._in_temp = False
        atom = m.atom_of(e, node)
        if atom is not None:
            self.atoms_seen.add(atom)
            if atom.startswith("depth|"):
                # `len(stack) < 2` style atoms are decided by the depth class: "depth|<|2"
                _, op, ks = atom.split("|")
                k = int(ks)
                d = st["depth"]
                return {"<": d < k, "!=": d != k, "==": d == k, ">=": d >= k, ">": d > k, "<=": d <= k}[op]
            neg = atom.startswith("!")
            base = atom[1:] if neg else atom
            if base not in tok:
                raise Unknown(f"token condition `{base}` is not part of the token classes")
            return (not tok[base]) if neg else tok[base]
        if isinstance(e, ast.NamedExpr):
            return self.ev(e.value, node, st, tok)
        if isinstance(e, ast.BoolOp):
            vals = []
            for v in e.values:
                x = self.truth(self.ev(v, node, st, tok))
                vals.append(x)
                if isinstance(e.op, ast.And) and not x:
                    return False
                if isinstance(e.op, ast.Or) and x:
                    return True
            return vals[-1]
        if isinstance(e, ast.UnaryOp) and isinstance(e.op, ast.Not):
            return not self.truth(self.ev(e.operand, node, st, tok))
        if isinstance(e, ast.BinOp) and isinstance(e.op, (ast.BitAnd, ast.BitOr)):
            a, b = self.ev(e.left, node, st, tok), self.ev(e.right, node, st, tok)
            for x in (a, b):
                if isinstance(x, tuple):
                    raise Outcome("internal:TypeError", f"`{unparse(e)}`: operand `{unparse(e.left if x is a else e.right)}` is a "
                                  f"{x[0]}, not the parser state (unsupported operand type for {'&' if isinstance(e.op, ast.BitAnd) else '|'})", node)
            if isinstance(a, bool) or isinstance(b, bool):
                raise Unknown(unparse(e))
            return (a & b) if isinstance(e.op, ast.BitAnd) else (a | b)
        if isinstance(e, ast.Compare) and len(e.ops) == 1:
            a, b = self.ev(e.left, node, st, tok), self.ev(e.comparators[0], node, st, tok)
            if isinstance(a, int) and isinstance(b, int):
                op = e.ops[0]
                if isinstance(op, ast.Eq):
                    return a == b
                if isinstance(op, ast.NotEq):
                    return a != b
                if isinstance(op, ast.Lt):
                    return a < b
                if isinstance(op, ast.LtE):
                    return a <= b
                if isinstance(op, ast.Gt):
                    return a > b
                if isinstance(op, ast.GtE):
                    return a >= b
        if isinstance(e, ast.IfExp):
            return self.ev(e.body if self.truth(self.ev(e.test, node, st, tok)) else e.orelse, node, st, tok)
        raise Unknown(unparse(e))

    def truth(self, v: Any) -> bool:
        if isinstance(v, tuple):
            if v[0] == "container":
                return v[1] > 0
            return bool(v[1])
        return bool(v)

    # ------------------------------------------------------------------ statements
    def derefs_prop(self, n: Node) -> bool:
        m = self.m
        if m.prop_var is None:
            return False
        for e in self.cfg.exprs_of(n):
            for x in ast.walk(e):
                if isinstance(x, ast.Attribute) and isinstance(x.value, ast.Name) and x.value.id == m.prop_var:
                    return True
        for t in self.cfg.stores_at(n):
            for x in ast.walk(t):
                if isinstance(x, ast.Attribute) and isinstance(x.value, ast.Name) and x.value.id == m.prop_var:
                    return True
        return False

    def exec_stmt(self, n: Node, st: dict[str, Any], tok: dict[str, bool]) -> None:
        m = self.m
        a = n.ast
        if self.derefs_prop(n) and not st["prop"]:
            raise Outcome("internal:AttributeError", f"`{unparse(a)[:60]}` dereferences `{m.prop_var}` while it is None", n)
        if isinstance(a, ast.Raise):
            exc = a.exc
            name = unparse(exc.func) if isinstance(exc, ast.Call) else (unparse(exc) if exc is not None else "<reraise>")
            raise Outcome(f"raise:{name}", unparse(a)[:80], n)
        # pops / appends on the operand stack, in evaluation order
        if m.stack_var is not None:
            for c in self.cfg.calls_in(n):
                if isinstance(c.func, ast.Attribute) and isinstance(c.func.value, ast.Name) and c.func.value.id == m.stack_var:
                    if c.func.attr in ("pop", "popleft"):
                        if st["depth"] == 0:
                            raise Outcome("internal:IndexError", f"`{unparse(c)}` on an empty stack", n)
                        st["depth"] = st["depth"] - 1 if st["depth"] < 3 else st["_pop3"]
                    elif c.func.attr in ("append", "appendleft"):
                        st["depth"] = min(3, st["depth"] + 1)
        for c in self.cfg.calls_in(n):
            if isinstance(c.func, ast.Attribute) and c.func.attr == "append" and isinstance(c.func.value, ast.Name) and \
                    c.func.value.id in m.list_flags:
                st["flags"][m.list_flags[c.func.value.id]] = True
            if isinstance(c.func, ast.Name) and c.func.id in ("float", "int") or (isinstance(c.func, ast.Name) and c.func.id == "to_float"):
                if not tok.get("number", False) and "number" in tok:
                    raise Outcome("raise:ValueError", f"`{unparse(c)}` on a non-numeric token", n)
        if isinstance(a, ast.AugAssign) and isinstance(a.target, ast.Name) and a.target.id in m.state_vars:
            # `state |= flag`: the same as state = state | flag
            both = ast.copy_location(ast.BinOp(left=ast.copy_location(ast.Name(id=a.target.id, ctx=ast.Load()), a), op=a.op, right=a.value), a)
            try:
                v = self.ev(both, n, st, tok)
            except Unknown as ex:
                raise AnalysisError(f"{m.fn.qualname}: state update `{unparse(a)}` not understood ({ex})") from None
            if not isinstance(v, int) or isinstance(v, bool):
                raise AnalysisError(f"{m.fn.qualname}: state update `{unparse(a)}` is not an integer")
            st["ints"][a.target.id] = v
        if isinstance(a, (ast.Assign, ast.AnnAssign)):
            targets = a.targets if isinstance(a, ast.Assign) else [a.target]
            for t in targets:
                if isinstance(t, ast.Name) and t.id in m.state_vars and a.value is not None:
                    try:
                        v = self.ev(a.value, n, st, tok)
                    except Unknown as ex:
                        raise AnalysisError(f"{m.fn.qualname}: state assignment `{unparse(a)}` not understood ({ex})") from None
                    if not isinstance(v, int) or isinstance(v, bool):
                        raise AnalysisError(f"{m.fn.qualname}: state assignment `{unparse(a)}` is not an integer")
                    st["ints"][t.id] = v
                elif isinstance(t, ast.Name) and t.id == m.prop_var and a.value is not None:
                    is_none = isinstance(a.value, ast.Constant) and a.value.value is None
                    st["prop"] = not is_none

    # ------------------------------------------------------------------ running a region
    def run(self, start: Node, stop: set[Node], st: dict[str, Any], tok: dict[str, bool]) -> tuple[str, dict[str, Any], Node | None]:
        """Execute from `start` until a node in `stop` or an exit. Returns (how, state, node)."""
        n = start
        steps = 0
        while True:
            steps += 1
            if steps > 2000:
                raise AnalysisError(f"{self.m.fn.qualname}: abstract execution does not terminate")
            if n in stop:
                return "stop", st, n
            if n.kind == "exit":
                return "return", st, n
            if n.kind == "raise_exit":
                return "raise", st, n
            try:
                if n.kind == "test":
                    try:
                        v = self.truth(self.ev(n.ast, n, st, tok))  # type: ignore[arg-type]
                    except Unknown as ex:
                        raise AnalysisError(f"{self.m.fn.qualname}:{n.lineno}: condition `{unparse(n.ast)}` is neither a state test "
                                            f"nor a recognised token condition ({ex})") from None
                    nxt = [s for s, l in n.succ if l == ("true" if v else "false")]
                elif n.kind == "for":
                    # an inner for loop (e.g. a generator join): skip it
                    nxt = [s for s, l in n.succ if l == "done"]
                else:
                    if n.kind == "stmt":
                        self.exec_stmt(n, st, tok)
                    nxt = [s for s, l in n.succ if l != "exc"]
            except Outcome as o:
                return o.kind, st, o.node or n
            if not nxt:
                return "stuck", st, n
            n = nxt[0]


def freeze(st: dict[str, Any]) -> MState:
    return MState(tuple(sorted(st["ints"].items())), bool(st["prop"]), int(st["depth"]), tuple(sorted(st["flags"].items())))


def thaw(ms: MState, pop3: int = 2) -> dict[str, Any]:
    return {"ints": dict(ms.ints), "prop": ms.prop, "depth": ms.depth, "flags": dict(ms.flags), "_pop3": pop3}


@dataclass
class Extracted:
    initial: MState
    transitions: dict[tuple[MState, str], list[tuple[str, MState | None, Node | None]]]  # (state, class) -> [(how, next, node)]
    finals: dict[MState, list[tuple[str, Node | None]]]  # reachable state -> post-loop outcomes
    states: list[MState]
    atoms: set[str]


def extract(m: Machine, head: Node, classes: dict[str, dict[str, bool]], initial: dict[str, Any]) -> Extracted:
    """Breadth-first exploration of the parser loop `head` over the token classes."""
    from .rules.common import body_entry

    it = Interp(m)
    cfg = it.cfg
    body_start = body_entry(head)
    done = [s for s, l in head.succ if l == "done"]
    if not done:
        raise AnalysisError(f"{m.fn.qualname}: loop without exit")
    init = freeze(initial)
    seen = {init}
    order = [init]
    work = [init]
    trans: dict[tuple[MState, str], list[tuple[str, MState | None, Node | None]]] = {}
    while work:
        ms = work.pop(0)
        for cname, tok in classes.items():
            outs = []
            pop_choices = [2, 3] if ms.depth == 3 else [2]
            for pc in pop_choices:
                st = thaw(ms, pc)
                how, st2, node = it.run(body_start, {head}, st, dict(tok))
                if how == "stop":
                    nxt = freeze(st2)
                    outs.append(("next", nxt, node))
                    if nxt not in seen:
                        seen.add(nxt)
                        order.append(nxt)
                        work.append(nxt)
                else:
                    outs.append((how, None, node))
            # dedupe
            uniq = []
            for o in outs:
                if (o[0], o[1]) not in [(u[0], u[1]) for u in uniq]:
                    uniq.append(o)
            trans[(ms, cname)] = uniq
        if len(seen) > 400:
            raise AnalysisError(f"{m.fn.qualname}: state space of the parser does not close")
    finals: dict[MState, list[tuple[str, Node | None]]] = {}
    for ms in order:
        outs2 = []
        for pc in ([2, 3] if ms.depth == 3 else [2]):
            how, _, node = it.run(done[0], set(), thaw(ms, pc), {k: False for k in next(iter(classes.values()))})
            if (how, node) not in outs2:
                outs2.append((how, node))
        finals[ms] = outs2
    return Extracted(init, trans, finals, order, it.atoms_seen)
