"""Positive fixture for the component-truthiness rule (never imported; parsed only)."""
from __future__ import annotations


class Exporter:
    def input_variable(self, input_variable: InputVariable) -> str:
        return self.to_string(input_variable) if input_variable else "None"  # falsy when it has no terms

    def rule_block(self, rule_block: RuleBlock | None) -> str:
        if not rule_block:  # also true for a block without rules
            return "none"
        return self.to_string(rule_block)

    def engine(self, engine: Engine) -> list[str]:
        out = []
        for variable in engine.output_variables:
            if variable:  # skips variables without terms
                out.append(self.to_string(variable))
        return out

    def fine(self, rule_block: RuleBlock | None, names: list[str]) -> str:
        if rule_block is None or not names:  # identity test / a plain list: not reported
            return ""
        return rule_block.name
