"""Positive fixture for the numpy-pitfall rule (never imported; parsed only)."""
import numpy as np


@np.vectorize
def saturating(a, b):  # the int literal decides the dtype of the whole result when it is the first output
    return max(a, b) if a + b < 1.0 else 1


def clipped(a):
    return a if a < 1.0 else 1.0  # floats only: not reported


clip_all = np.vectorize(clipped)  # not reported
flag_all = np.vectorize(lambda a: 0 if a < 0.5 else a)  # reported: int and non-int results, no otypes
typed = np.vectorize(lambda a: 0 if a < 0.5 else a, otypes=[float])  # not reported


def extremely(x):
    return np.piecewise(x, x <= 0.5, [lambda z: 2 * z**2, lambda z: 1 - 2 * (1 - z) ** 2])  # reported: bare condition array


def extremely_ok(x):
    return np.piecewise(x, [x <= 0.5], [lambda z: 2 * z**2, lambda z: 1 - 2 * (1 - z) ** 2])  # not reported
