"""Positive fixture for C20 rules Y6 / Y7 (never imported; parsed only)."""
from fuzzylite.library import settings

DECIMALS = settings.decimals  # module level read


def fmt(x, decimals=settings.decimals):  # default argument
    return f"{x:.{decimals}f}"


class Formatter:
    atol = settings.atol  # class body

    def close(self, a, b, tol=settings.rtol):  # default argument
        return abs(a - b) <= tol


def set_it():
    settings.decimals = 9  # foreign write
    setattr(settings, "alias", "x")  # foreign write
    vars(settings).update(atol=1.0)  # foreign write
