"""Positive fixture for the memoisation rule (never imported; parsed only)."""
import functools
from functools import cached_property, lru_cache


class Defuzzifier:
    @classmethod
    @functools.lru_cache(maxsize=None)
    def infer_type(cls, component):
        return {type(t) for t in component.terms}

    @lru_cache
    def grouped(self, fuzzy):
        return fuzzy.grouped_terms()

    @cached_property
    def resolution_points(self):
        return list(range(self.resolution))


@functools.cache
def pure(n):  # no state read: not reported
    return n * 2
