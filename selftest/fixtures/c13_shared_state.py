"""Positive fixture for C13 rule H4 (never imported; parsed only)."""

REGISTRY = {}
CACHE = []


class Term:
    _instances = []
    _table = {"a": 1}

    def __init__(self, name, values=[]):  # mutable default
        self.name = name
        self.values = values
        Term._instances.append(self)  # class-level mutable written by an instance method
        REGISTRY[name] = self  # module-level mutable written by an instance method

    def __deepcopy__(self, memo):  # copy hook
        return self

    def configure(self, options={}):  # mutable default
        self._table["b"] = 2
        return options


class Slotted:
    __slots__ = ("a",)

    def __copy__(self):
        return self
