"""Positive fixture for C13 rule H4 (never imported; parsed only)."""

REGISTRY = {}
CACHE = []


class Term:
    _instances = []
    _table = {"a": 1}

    def __init__(self, name, values=[]):  # mutable default
        self.name = name
        self.values = values
        Term._instances.append(self)  # class-level mutable written by an instance method
        REGISTRY[name] = self  # module-level mutable written by an instance method

    def __deepcopy__(self, memo):  # copy hook
        return self

    def configure(self, options={}):  # mutable default
        self._table["b"] = 2
        return options


class Slotted:
    __slots__ = ("a",)

    def __copy__(self):
        return self


# --- references that copy.deepcopy does not copy (H4 deepcopy-atomic): each of the four stores below must be found
import functools
import weakref
from weakref import proxy


class HoldsWeakly:
    def __init__(self, engine):
        self._engine = weakref.ref(engine)  # 1: the copy's reference still points at the original
        self.peer = proxy(engine)  # 2
        self.resolve = lambda name: engine.variable(name)  # 3: a closure over the original object
        self.lookup = functools.partial(engine.variable)  # 4 (a bound method of the original)

    def fine(self):
        self.count = lambda: 0  # captures nothing: not reported
        return self
