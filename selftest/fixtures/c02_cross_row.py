"""Positive fixture for C02/V5: decisions taken once for a whole batch (never imported; parsed only)."""

import numpy as np

from .library import scalar
from .types import Scalar


def short_circuit(left: Scalar, right: Scalar) -> Scalar:
    if not scalar(left).any():  # V5: rows with left == 0 are treated differently depending on the other rows
        return left
    return np.minimum(left, right)


def fast_path(x: Scalar) -> Scalar:
    return x if np.all(x > 0) else np.abs(x)  # V5


def masked_fill(value: Scalar, default: float) -> Scalar:
    value = np.atleast_1d(value)
    missing = np.isnan(value)
    if missing.any():  # silent: the guarded statement is a store through the reduced mask
        value[missing] = default
    return value
