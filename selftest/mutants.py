"""Seeded mutants (must be reported) and behaviour-preserving rewrites (must stay silent).

Each entry: id, props (property ids whose check must react), edits [(file, old text, new text)],
expect (substring of the reported finding key `rule/construct`), kind ('mutant' | 'equivalent').
"""

A = "fuzzylite/activation.py"
R = "fuzzylite/rule.py"
T = "fuzzylite/term.py"
V = "fuzzylite/variable.py"
E = "fuzzylite/engine.py"
D = "fuzzylite/defuzzifier.py"
F = "fuzzylite/factory.py"
O = "fuzzylite/operation.py"
X = "fuzzylite/exporter.py"
I = "fuzzylite/importer.py"
L = "fuzzylite/library.py"
H = "fuzzylite/hedge.py"
N = "fuzzylite/norm.py"

MUTANTS: list[dict] = []


def mutant(id, props, edits, expect, kind="mutant"):
    if isinstance(props, str):
        props = [props]
    if isinstance(edits, tuple):
        edits = [edits]
    MUTANTS.append({"id": id, "props": props, "edits": edits, "expect": expect, "kind": kind})


def equivalent(id, props, edits):
    mutant(id, props, edits, "", kind="equivalent")


FIRST_GUARD = """                if (
                    activated < self.rules
                    and activation_degree > 0.0
                    and activation_degree >= self.threshold
                ):
                    rule.trigger(implication)
                    activated += 1


class Last"""

# ------------------------------------------------------------------------------------------ C08
mutant("c08-first-zero-ge", "C08", (A, FIRST_GUARD, FIRST_GUARD.replace("activation_degree > 0.0", "activation_degree >= 0.0")), "A-sem/First.activate/selection")
mutant("c08-first-threshold-gt", "C08", (A, FIRST_GUARD, FIRST_GUARD.replace(">= self.threshold", "> self.threshold")), "A-sem/First.activate/selection")
mutant("c08-first-count-le", "C08", (A, FIRST_GUARD, FIRST_GUARD.replace("activated < self.rules", "activated <= self.rules")), "A-sem/First.activate/selection")
mutant("c08-first-no-count", "C08", (A, FIRST_GUARD, FIRST_GUARD.replace("                    activated += 1\n", "")), "")
mutant("c08-first-drop-threshold", "C08", (A, FIRST_GUARD, FIRST_GUARD.replace("                    and activation_degree >= self.threshold\n", "")), "A-sem/First.activate/selection")
mutant("c08-last-not-reversed", "C08", (A, "for rule in reversed(rule_block.rules):", "for rule in rule_block.rules:"), "A-sem/Last.activate/selection")
mutant("c08-first-reversed", "C08", (A, "for rule in iter(rule_block.rules):", "for rule in reversed(rule_block.rules):"), "A-sem/First.activate/selection")
mutant("c08-highest-sign", "C08", (A, "heapq.heappush(activate, (-activation_degree, index))", "heapq.heappush(activate, (activation_degree, index))"), "A-sem/Highest.activate/selection")
mutant("c08-lowest-sign", "C08", (A, "heapq.heappush(activate, (activation_degree, index))", "heapq.heappush(activate, (-activation_degree, index))"), "A-sem/Lowest.activate/selection")
mutant("c08-highest-key-swapped", "C08", (A, "heapq.heappush(activate, (-activation_degree, index))", "heapq.heappush(activate, (index, -activation_degree))"), "A-sem/Highest.activate/no-internal-error")
mutant("c08-highest-zero-ge", "C08", (A, """                if activation_degree > 0.0:
                    heapq.heappush(activate, (-activation_degree, index))""", """                if activation_degree >= 0.0:
                    heapq.heappush(activate, (-activation_degree, index))"""), "A-sem/Highest.activate/selection")
mutant("c08-comparator-swap", "C08", (A, "            LessThan: operator.lt,\n            LessThanOrEqualTo: operator.le,", "            LessThan: operator.le,\n            LessThanOrEqualTo: operator.lt,"), "T3/")
mutant("c08-threshold-args-swapped", "C08", (A, "self.comparator.operator(activation_degree, self.threshold)", "self.comparator.operator(self.threshold, activation_degree)"), "A-sem/Threshold.activate/selection")
mutant("c08-threshold-no-assert", "C08", (A, """                self.assert_is_not_vector(activation_degree)
                if self.comparator.operator""", """                if self.comparator.operator"""), "O-vec/Threshold.activate")
mutant("c08-general-no-deactivate", ["C08", "C01"], (A, """        for rule in rule_block.rules:
            rule.deactivate()
            if rule.is_loaded():
                rule.activate_with(conjunction, disjunction)
                rule.trigger(implication)""", """        for rule in rule_block.rules:
            if rule.is_loaded():
                rule.activate_with(conjunction, disjunction)
                rule.trigger(implication)"""), "O-dea/General.activate")
mutant("c08-proportional-const-divisor", "C08", (A, "rule.activation_degree /= sum_degrees", "rule.activation_degree /= len(activate)"), "A-sem/Proportional.activate/selection")
mutant("c08-proportional-sum-all", "C08", (A, """                if activation_degree > 0.0:
                    activate.append(rule)
                    sum_degrees += activation_degree""", """                sum_degrees += activation_degree
                if activation_degree > 0.0:
                    activate.append(rule)"""), "Proportional.activate")
mutant("c08-general-implication-is-conjunction", ["C08", "C01"], (A, """class General(Activation):""", """class General(Activation):
    pass


class _G(Activation):"""), "", kind="equivalent") if False else None
mutant("c08-trigger-ge", ["C08"], (R, "self.triggered = array(self.activation_degree > 0.0)", "self.triggered = array(self.activation_degree >= 0.0)"), "U1/Rule.trigger")
mutant("c08-assert-size-ge", "C08", (A, "if (size := np.size(activation_degree)) > 1:", "if (size := np.size(activation_degree)) > 2:"), "O-vec/Activation.assert_is_not_vector")
mutant("c08-lowest-pop-count", "C08", (A, """        activated = 0
        while activate and activated < self.rules:
            index = heapq.heappop(activate)[1]
            rule_block.rules[index].trigger(implication)
            activated += 1


class Proportional""", """        activated = 0
        while activate and activated <= self.rules:
            index = heapq.heappop(activate)[1]
            rule_block.rules[index].trigger(implication)
            activated += 1


class Proportional"""), "A-sem/Lowest.activate/selection")

FIRST_EQ = FIRST_GUARD.replace("""                if (
                    activated < self.rules
                    and activation_degree > 0.0
                    and activation_degree >= self.threshold
                ):
                    rule.trigger(implication)
                    activated += 1
""", """                if not (activated < self.rules):
                    continue
                if activation_degree <= 0.0 or self.threshold > activation_degree:
                    continue
                rule.trigger(implication)
                activated = activated + 1
""")
# De Morgan with the comparisons *flipped* (`<= 0 or threshold > degree`) is not the same program: a NaN degree fails every comparison, so the original does not
# select it and this one does. Registered as an equivalent until A-sem got NaN degrees (round 11), which report it - a mutant. The NaN-preserving form is the equivalent.
mutant("c08-first-demorgan-flipped-comparisons-select-nan", "C08", (A, FIRST_GUARD, FIRST_EQ), "A-sem/First.activate/selection")
equivalent("c08-eq-first-demorgan-continue", "C08", (A, FIRST_GUARD, FIRST_EQ.replace("if activation_degree <= 0.0 or self.threshold > activation_degree:",
                                                                                   "if not (activation_degree > 0.0) or not (activation_degree >= self.threshold):")))
LOWEST_LOOP = """        for index, rule in enumerate(rule_block.rules):
            rule.deactivate()
            if rule.is_loaded():
                activation_degree = rule.activate_with(conjunction, disjunction)
                self.assert_is_not_vector(activation_degree)
                if activation_degree > 0.0:
                    heapq.heappush(activate, (activation_degree, index))
"""
equivalent("c08-eq-lowest-two-phase-deactivate", ["C08", "C13", "C01"], (A, LOWEST_LOOP, """        for rule in rule_block.rules:
            rule.deactivate()
        for index, rule in enumerate(rule_block.rules):
            if rule.is_loaded():
                activation_degree = rule.activate_with(conjunction, disjunction)
                self.assert_is_not_vector(activation_degree)
                if activation_degree > 0.0:
                    heapq.heappush(activate, (activation_degree, index))
"""))
mutant("c08-lowest-index-among-loaded", ["C08"], (A, LOWEST_LOOP, """        for rule in rule_block.rules:
            rule.deactivate()
        loaded = [rule for rule in rule_block.rules if rule.is_loaded()]
        for index, rule in enumerate(loaded):
            activation_degree = rule.activate_with(conjunction, disjunction)
            self.assert_is_not_vector(activation_degree)
            if activation_degree > 0.0:
                heapq.heappush(activate, (activation_degree, index))
"""), "A-sem/Lowest.activate/selection")
mutant("c08-lowest-deactivate-only-loaded", ["C08", "C13"], (A, LOWEST_LOOP, """        for index, rule in enumerate(rule_block.rules):
            if rule.is_loaded():
                rule.deactivate()
                activation_degree = rule.activate_with(conjunction, disjunction)
                self.assert_is_not_vector(activation_degree)
                if activation_degree > 0.0:
                    heapq.heappush(activate, (activation_degree, index))
"""), "O-dea")
equivalent("c08-eq-general-rename", ["C08", "C01"], (A, """        for rule in rule_block.rules:
            rule.deactivate()
            if rule.is_loaded():
                rule.activate_with(conjunction, disjunction)
                rule.trigger(implication)""", """        for r_ in rule_block.rules:
            r_.deactivate()
            if not r_.is_loaded():
                continue
            r_.activate_with(rule_block.conjunction, disjunction)
            r_.trigger(implication)"""))

# ------------------------------------------------------------------------------------------ C19
DISJ = """            if disjunction_needed and not rule_block.disjunction:
                errors.append(
                    f"Rule block {name_or_index} does not have any disjunction operator "
                    f"and is needed by {disjunction_needed} rule{'s'[:disjunction_needed ^ 1]}"
                )
"""
mutant("c19-regress-nested-disjunction", "C19", (E, DISJ, "\n".join(("    " + l if l.strip() else l) for l in DISJ.split("\n"))), "C1/Engine.is_ready/disjunction")
mutant("c19-conj-counter-uses-or", "C19", (E, 'conjunction_needed += f" {Rule.AND} " in rule.antecedent.text', 'conjunction_needed += f" {Rule.OR} " in rule.antecedent.text'), "C1/Engine.is_ready/conjunction")
mutant("c19-implication-report-deleted", "C19", (E, "            if implication_needed and not rule_block.implication:", "            if False and implication_needed and not rule_block.implication:"), "C1/Engine.is_ready/implication")
mutant("c19-defuzzifier-under-terms", "C19", (E, """            if not variable.defuzzifier:
                errors.append(""", """            if not variable.terms and not variable.defuzzifier:
                errors.append("""), "C1/Engine.is_ready/defuzzifier")
mutant("c19-aggregation-needs-weighted", "C19", (E, "if not variable.aggregation and isinstance(variable.defuzzifier, IntegralDefuzzifier):", "if not variable.aggregation and isinstance(variable.defuzzifier, WeightedDefuzzifier):"), "C1/Engine.is_ready/aggregation")
mutant("c19-implication-tests-conjunction", "C19", (E, "if implication_needed and not rule_block.implication:", "if implication_needed and not rule_block.conjunction:"), "C1/Engine.is_ready/implication")
mutant("c19-disjunction-elif", "C19", (E, "            if disjunction_needed and not rule_block.disjunction:", "            elif disjunction_needed and not rule_block.disjunction:"), "C1/Engine.is_ready/disjunction")
mutant("c19-always-ready", "C19", (E, "        return not errors\n\n    def infer_type", "        return True\n\n    def infer_type"), "C1/Engine.is_ready/result")
mutant("c19-implication-first-conclusion", "C19", (E, "                    for consequent in rule.consequent.conclusions:\n                        mamdani_consequents +=", "                    for consequent in rule.consequent.conclusions[:1]:\n                        mamdani_consequents +="), "C1/Engine.is_ready/implication")
mutant("c19-second-output-skipped", "C19", (E, "        for variable in self.output_variables:\n            if not variable.terms:\n                errors.append(f\"Output variable", "        for variable in self.output_variables[:1]:\n            if not variable.terms:\n                errors.append(f\"Output variable"), "C1/Engine.is_ready/defuzzifier")
equivalent("c19-eq-spurious-note", "C19", (E, "        if not self.input_variables:\n            errors.append(", "        if len(self.input_variables) == 0:\n            errors.append("))
equivalent("c19-eq-flattened", "C19", (E, "            if conjunction_needed and not rule_block.conjunction:\n                errors.append(", "            missing_c = not rule_block.conjunction\n            if missing_c and conjunction_needed:\n                errors.append("))

# ------------------------------------------------------------------------------------------ C08 A-sem (interpretation on model rule blocks)
mutant("c08-highest-ties-reversed", "C08", (A, "heapq.heappush(activate, (-activation_degree, index))", "heapq.heappush(activate, (-activation_degree, -index))"), "A-sem/Highest.activate/selection")
mutant("c08-highest-ties-by-sort", "C08", (A, """        activated = 0
        while activate and activated < self.rules:
            index = heapq.heappop(activate)[1]
            rule_block.rules[index].trigger(implication)
            activated += 1


class Lowest""", """        activated = 0
        for _, index in sorted(activate, reverse=True, key=lambda entry: -entry[0]):
            if activated >= self.rules:
                break
            rule_block.rules[index].trigger(implication)
            activated += 1


class Lowest"""), "A-sem/Highest.activate/selection")
mutant("c08-general-skips-disabled-degree", "C08", (A, """            rule.deactivate()
            if rule.is_loaded():
                rule.activate_with(conjunction, disjunction)
                rule.trigger(implication)""", """            rule.deactivate()
            if rule.is_loaded() and rule.enabled:
                rule.activate_with(conjunction, disjunction)
                rule.trigger(implication)"""), "A-sem/General.activate/degrees")
mutant("c08-lowest-assert-after-compare", "C08", (A, """                self.assert_is_not_vector(activation_degree)
                if activation_degree > 0.0:
                    heapq.heappush(activate, (activation_degree, index))""", """                if activation_degree > 0.0:
                    self.assert_is_not_vector(activation_degree)
                    heapq.heappush(activate, (activation_degree, index))"""), "O-vec/Lowest.activate/assert_is_not_vector")
mutant("c08-proportional-normalises-in-first-loop", "C08", (A, """                if activation_degree > 0.0:
                    activate.append(rule)
                    sum_degrees += activation_degree

        for rule in activate:
            rule.activation_degree /= sum_degrees
            rule.trigger(implication)""", """                if activation_degree > 0.0:
                    activate.append(rule)
                    sum_degrees += activation_degree
                    rule.activation_degree /= sum_degrees

        for rule in activate:
            rule.trigger(implication)"""), "A-sem/Proportional.activate/selection")
mutant("c08-threshold-previous-degree", "C08", (A, """                if self.comparator.operator(activation_degree, self.threshold):
                    rule.trigger(implication)""", """                if self.comparator.operator(activation_degree, self.threshold):
                    rule.trigger(implication)
                    self.threshold = activation_degree"""), "A-sem/Threshold.activate/selection")
mutant("c08-first-counts-enabled-only", "C08", (A, """                    rule.trigger(implication)
                    activated += 1


class Last""", """                    rule.trigger(implication)
                    activated += rule.enabled


class Last"""), "A-sem/First.activate/selection")
equivalent("c08-eq-highest-sorted", "C08", (A, """        activated = 0
        while activate and activated < self.rules:
            index = heapq.heappop(activate)[1]
            rule_block.rules[index].trigger(implication)
            activated += 1


class Lowest""", """        for _, index in sorted(activate)[: max(self.rules, 0)]:
            rule_block.rules[index].trigger(implication)


class Lowest"""))
equivalent("c08-eq-proportional-total-first", "C08", (A, """        for rule in activate:
            rule.activation_degree /= sum_degrees
            rule.trigger(implication)""", """        total = sum(rule.activation_degree for rule in activate)
        for rule in activate:
            rule.activation_degree = rule.activation_degree / total
            rule.trigger(implication)"""))

# ------------------------------------------------------------------------------------------ C20
CTX = """        rollback_settings = vars(self).copy()
        for key, value in context_settings.items():
            setattr(self, key, value)
        try:
            yield
        finally:
            for key, value in context_settings.items():
                setattr(self, key, rollback_settings[key])
"""
mutant("c20-snapshot-after-apply", "C20", (L, CTX, """        for key, value in context_settings.items():
            setattr(self, key, value)
        rollback_settings = vars(self).copy()
        try:
            yield
        finally:
            for key, value in context_settings.items():
                setattr(self, key, rollback_settings[key])
"""), "Y-sem/Settings.context")
mutant("c20-yield-outside-try", "C20", (L, CTX, """        rollback_settings = vars(self).copy()
        for key, value in context_settings.items():
            setattr(self, key, value)
        yield
        for key, value in context_settings.items():
            setattr(self, key, rollback_settings[key])
"""), "Y-sem/Settings.context/restored-on-exception")
mutant("c20-finally-to-except", "C20", (L, CTX, """        rollback_settings = vars(self).copy()
        for key, value in context_settings.items():
            setattr(self, key, value)
        try:
            yield
        except Exception:
            for key, value in context_settings.items():
                setattr(self, key, rollback_settings[key])
            raise
"""), "Y-sem/Settings.context/restored-on-normal-exit")
mutant("c20-restore-whole-snapshot", "C20", (L, CTX, CTX.replace("""            for key, value in context_settings.items():
                setattr(self, key, rollback_settings[key])""", """            for key, value in rollback_settings.items():
                setattr(self, key, rollback_settings[key])""")), "Y-sem/Settings.context/others-untouched")
mutant("c20-restore-new-value", "C20", (L, CTX, CTX.replace("setattr(self, key, rollback_settings[key])", "setattr(self, key, value)")), "Y-sem/Settings.context/restored")
mutant("c20-no-contextmanager", "C20", (L, "    @contextmanager\n    def context(", "    def context("), "Y1/")
mutant("c20-param-without-attribute", "C20", (L, """        if "factory_manager" in context_settings:
            context_settings["_factory_manager"] = context_settings.pop("factory_manager")
""", ""), "Y-sem/Settings.context/protocol")  # the parameter reaches the attribute through its property; leaving the context then fails on the snapshot key
mutant("c20-module-level-decimals", "C20", (O, "class Operation:", "DECIMALS = settings.decimals\n\n\nclass Operation:"), "Y6/")
mutant("c20-default-arg-atol", "C20", (O, "    def is_close(a: Scalar, b: Scalar) -> bool | Array[np.bool_]:", "    def is_close(a: Scalar, b: Scalar, atol: float = settings.atol) -> bool | Array[np.bool_]:"), "Y6/")
mutant("c20-str-frozen-decimals", "C20", [(O, "class Operation:", "_D = 3\n\n\nclass Operation:"), (O, """        if isinstance(x, (float, np.floating)):
            return f"{x:.{settings.decimals}f}\"""", """        if isinstance(x, (float, np.floating)):
            return f"{x:.{_D}f}\"""")], "Y8/Operation.str") if False else None
# disabled: mutant("c20-foreign-write", "C20", (X, "    def to_string(self, instance: Any, /) -> str:\n        \"\"\"Return the Python code to construct the given instance.", "    def to_string(self, instance: Any, /) -> str:\n        \"\"\"Return the Python code to construct the given instance.\n        settings.alias = 'fl'"), "Y7/")
mutant("c20-early-return-before-restore", "C20", (L, CTX, CTX.replace("""        finally:
            for key, value""", """        finally:
            if not context_settings:
                return
            for key, value""")), "", kind="equivalent") if False else None
equivalent("c20-eq-dict-snapshot", "C20", (L, "rollback_settings = vars(self).copy()", "rollback_settings = dict(vars(self))"))
equivalent("c20-eq-renamed-locals", "C20", (L, CTX, CTX.replace("rollback_settings", "saved").replace("for key, value in context_settings.items():\n                setattr(self, key, saved[key])", "for k, _v in context_settings.items():\n                setattr(self, k, saved[k])")))

# ------------------------------------------------------------------------------------------ C12
DEFUZ = """        value = scalar(self.defuzzifier.defuzzify(self.fuzzy, self.minimum, self.maximum))

        # previous value is the last element of the value at t
        self.previous_value = np.take(self.value, -1).astype(float)
"""
LOCK = """        # Locking previous values
        if self.lock_previous:
            with np.nditer(value, op_flags=[["readwrite"]]) as iterator:
                previous_value = self.previous_value
                for value_i in iterator:
                    if np.isnan(value_i):
                        value_i[...] = previous_value  # type:ignore
                    else:
                        previous_value = value_i  # type: ignore
"""
DEFAULT = """        # Applying default values
        if not np.isnan(self.default_value):
            value[np.isnan(value)] = self.default_value  # type: ignore
"""
mutant("c12-default-before-lock", "C12", (V, LOCK + "\n" + DEFAULT, DEFAULT + "\n" + LOCK), "O4/OutputVariable.defuzzify/order")
mutant("c12-previous-before-defuzzify", "C12", (V, DEFUZ, """        # previous value is the last element of the value at t
        self.previous_value = np.take(self.value, -1).astype(float)
        value = scalar(self.defuzzifier.defuzzify(self.fuzzy, self.minimum, self.maximum))
"""), "O2/")
mutant("c12-capture-after-commit", "C12", [(V, """
        # previous value is the last element of the value at t
        self.previous_value = np.take(self.value, -1).astype(float)
""", "\n"), (V, """        # Committing the value
        self.value = value
""", """        # Committing the value
        self.value = value
        self.previous_value = np.take(self.value, -1).astype(float)
""")], "O")
mutant("c12-commit-bypasses-setter", "C12", (V, "        # Committing the value\n        self.value = value\n", "        # Committing the value\n        self._value = value\n"), "O6/OutputVariable.defuzzify/commit")
mutant("c12-enabled-check-removed", "C12", (V, """        if not self.enabled:
            return

        if not self.defuzzifier:""", """        if not self.defuzzifier:"""), "O1/")
mutant("c12-no-carried-update", "C12", (V, """                    if np.isnan(value_i):
                        value_i[...] = previous_value  # type:ignore
                    else:
                        previous_value = value_i  # type: ignore
""", """                    if np.isnan(value_i):
                        value_i[...] = previous_value  # type:ignore
"""), "O5/OutputVariable.defuzzify/lock-fill")
mutant("c12-default-fills-everything", "C12", (V, "value[np.isnan(value)] = self.default_value", "value[...] = self.default_value"), "O5/OutputVariable.defuzzify/default-fill")
mutant("c12-default-guard-flipped", "C12", (V, "if not np.isnan(self.default_value):", "if np.isnan(self.default_value):"), "O5/OutputVariable.defuzzify/default-fill")
mutant("c12-clip-bounds-swapped", "C12", (V, "np.clip(value, self.minimum, self.maximum) if self.lock_range else value", "np.clip(value, self.maximum, self.minimum) if self.lock_range else value"), "O6/Variable.value.setter/lock-range")
mutant("c12-clip-polarity", "C12", (V, "np.clip(value, self.minimum, self.maximum) if self.lock_range else value", "value if self.lock_range else np.clip(value, self.minimum, self.maximum)"), "O6/Variable.value.setter")
mutant("c12-clear-keeps-previous", "C12", (V, """        self.fuzzy.clear()
        self.previous_value = nan
        self.value = nan""", """        self.fuzzy.clear()
        self.value = nan"""), "O8/OutputVariable.clear/previous")
mutant("c12-seed-from-default", "C12", (V, "                previous_value = self.previous_value\n", "                previous_value = self.default_value\n"), "O5/OutputVariable.defuzzify/lock-fill")
mutant("c12-fuzzy-cleared-before-defuzzify", ["C12"], (V, "        if not self.defuzzifier:\n            raise ValueError(\n                f\"expected a defuzzifier in output variable", "        self.fuzzy.terms.sort(key=id)\n        if not self.defuzzifier:\n            raise ValueError(\n                f\"expected a defuzzifier in output variable"), "O2/")
equivalent("c12-eq-setter-if-statement", "C12", (V, "        self._value = np.clip(value, self.minimum, self.maximum) if self.lock_range else value", "        if self.lock_range:\n            self._value = np.clip(value, self.minimum, self.maximum)\n        else:\n            self._value = value"))
equivalent("c12-eq-early-return-positive", "C12", (V, """        if not self.enabled:
            return

        if not self.defuzzifier:""", """        if self.enabled is False or not self.enabled:
            return None

        if not self.defuzzifier:"""))

# ------------------------------------------------------------------------------------------ C01 / C07 / C06 wiring
mutant("c01-drop-weight", ["C01", "C06"], (R, "self.activation_degree = self.weight * self.antecedent.activation_degree(", "self.activation_degree = 1.0 * self.antecedent.activation_degree("), "P3/Rule.activate_with/weight")
mutant("c01-or-uses-conjunction", ["C01", "C06"], (R, """                return disjunction.compute(
                    self.activation_degree(conjunction, disjunction, node.left),""", """                return conjunction.compute(
                    self.activation_degree(conjunction, disjunction, node.left),"""), "P9/Antecedent.activation_degree/")
mutant("c01-implication-is-conjunction", ["C01", "C08"], (A, """        implication = rule_block.implication

        for rule in rule_block.rules:
            rule.deactivate()
            if rule.is_loaded():
                rule.activate_with(conjunction, disjunction)""", """        implication = rule_block.conjunction

        for rule in rule_block.rules:
            rule.deactivate()
            if rule.is_loaded():
                rule.activate_with(conjunction, disjunction)"""), "P2/General.activate/implication")
mutant("c01-clear-first-only", ["C01", "C13"], (E, """        for variable in self.output_variables:
            variable.fuzzy.clear()
""", """        for variable in self.output_variables[:1]:
            variable.fuzzy.clear()
"""), "Engine.process/clear-all")
mutant("c01-ignore-block-enabled", "C01", (E, """            if block.enabled:
                block.activate()""", """            block.activate()"""), "P1/Engine.process/activate-enabled-blocks")
mutant("c01-clear-guarded-by-enabled", ["C01", "C13"], (E, """        for variable in self.output_variables:
            variable.fuzzy.clear()
""", """        for variable in self.output_variables:
            if variable.enabled:
                variable.fuzzy.clear()
"""), "Engine.process/clear-all")
mutant("c01-trigger-before-activate", ["C01", "C08"], (A, """                rule.activate_with(conjunction, disjunction)
                rule.trigger(implication)


class First""", """                rule.trigger(implication)
                rule.activate_with(conjunction, disjunction)


class First"""), "A-sem/General.activate/selection")
mutant("c01-append-to-first-conclusion-variable", ["C01", "C07"], (R, "                    proposition.variable.fuzzy.terms.append(activated_term)", "                    self.conclusions[0].variable.fuzzy.terms.append(activated_term)"), "Consequent.modify/terms")
mutant("c01-fold-seed-one", "C01", (T, """        y = scalar(0.0)
        for term in self.terms:
            y = self.aggregation.compute(y, term.membership(x))""", """        y = scalar(1.0)
        for term in self.terms:
            y = self.aggregation.compute(y, term.membership(x))"""), "P7/Aggregated.membership/seed")
mutant("c01-fold-not-carried", "C01", (T, "            y = self.aggregation.compute(y, term.membership(x))  # type: ignore", "            y = self.aggregation.compute(scalar(0.0), term.membership(x))  # type: ignore"), "P7/Aggregated.membership/")
mutant("c01-disabled-variable-returns-one", ["C01", "C06"], (R, """            if not node.variable.enabled:
                return scalar(0.0)""", """            if not node.variable.enabled:
                return scalar(1.0)"""), "P9/Antecedent.activation_degree/disabled")
mutant("c01-hedges-not-reversed", ["C01", "C06"], (R, """            for hedge in reversed(node.hedges):
                result = hedge.hedge(result)

            return result

        # OPERATOR""", """            for hedge in node.hedges:
                result = hedge.hedge(result)

            return result

        # OPERATOR"""), "P9/Antecedent.activation_degree/")
mutant("c01-output-antecedent-uses-membership", ["C01", "C06"], (R, "result = node.variable.fuzzy.activation_degree(node.term)", "result = node.term.membership(node.variable.value)"), "P9/Antecedent.activation_degree/")
mutant("c01-defuzzify-range-swapped", "C01", (V, "self.defuzzifier.defuzzify(self.fuzzy, self.minimum, self.maximum)", "self.defuzzifier.defuzzify(self.fuzzy, self.maximum, self.minimum)"), "P8/")
mutant("c01-operands-swapped-children", ["C01", "C06"], (R, """                return conjunction.compute(
                    self.activation_degree(conjunction, disjunction, node.left),
                    self.activation_degree(conjunction, disjunction, node.right),""", """                return conjunction.compute(
                    self.activation_degree(conjunction, disjunction, node.left),
                    self.activation_degree(conjunction, disjunction, node.left),"""), "P9/Antecedent.activation_degree/")
mutant("c01-activated-ignores-degree", "C01", (T, """        y = self.implication.compute(
            np.atleast_2d(self.degree).T,
            self.term.membership(x),
        )""", """        y = self.implication.compute(
            np.atleast_2d(1.0).T,
            self.term.membership(x),
        )"""), "P6/Activated.membership/operands")
mutant("c01-lookup-by-first-term", "C01", (T, "activated = self.grouped_terms().get(term.name)", "activated = next(iter(self.grouped_terms().values()), None)"), "P10/")
mutant("c07-second-append", ["C07", "C01"], (R, """                    proposition.variable.fuzzy.terms.append(activated_term)
                else:""", """                    proposition.variable.fuzzy.terms.append(activated_term)
                    if proposition.hedges:
                        proposition.variable.fuzzy.terms.append(activated_term)
                else:"""), "Consequent.modify/terms")
mutant("c07-enabled-guard-dropped", ["C07", "C01"], (R, "            if proposition.variable.enabled:\n                for hedge in reversed(proposition.hedges):", "            if True:\n                for hedge in reversed(proposition.hedges):"), "Consequent.modify/terms")
mutant("c07-posinf-zero", "C07", (T, "np.nan_to_num(value, nan=0.0, neginf=0.0, posinf=1.0)", "np.nan_to_num(value, nan=0.0, neginf=0.0, posinf=0.0)"), "T2/Activated.degree/posinf")
mutant("c07-neginf-default", "C07", (T, "np.nan_to_num(value, nan=0.0, neginf=0.0, posinf=1.0)", "np.nan_to_num(value, nan=0.0, posinf=1.0)"), "T2/Activated.degree/neginf")
mutant("c07-constructor-bypasses-setter", "C07", (T, "        self.term = term\n        self.degree = degree\n        self.implication = implication", "        self.term = term\n        self._degree = degree\n        self.implication = implication"), "T2/Activated.__init__")
mutant("c07-rule-disabled-still-modifies", ["C07", "C01"], (R, """        if self.enabled:
            self.consequent.modify(self.activation_degree, implication)
            self.triggered = array(self.activation_degree > 0.0)""", """        self.consequent.modify(self.activation_degree, implication)
        if self.enabled:
            self.triggered = array(self.activation_degree > 0.0)"""), "P4/Rule.trigger/enabled")
mutant("c07-consequent-hedges-forward", "C07", (R, "                for hedge in reversed(proposition.hedges):\n                    activation_degree = hedge.hedge(activation_degree)", "                for hedge in proposition.hedges:\n                    activation_degree = hedge.hedge(activation_degree)"), "M-sem/Consequent.modify/degree")
MODIFY_LOOP = """            if proposition.variable.enabled:
                for hedge in reversed(proposition.hedges):
                    activation_degree = hedge.hedge(activation_degree)

                if not proposition.term:
                    raise ValueError(
                        f"expected a term in proposition '{proposition}', but found none"
                    )
                activated_term = Activated(proposition.term, activation_degree, implication)
"""
MODIFY_FIXED = """            if proposition.variable.enabled:
                degree = activation_degree
                for hedge in reversed(proposition.hedges):
                    degree = hedge.hedge(degree)

                if not proposition.term:
                    raise ValueError(
                        f"expected a term in proposition '{proposition}', but found none"
                    )
                activated_term = Activated(proposition.term, degree, implication)
"""
# the repaired variant must be silent on L1 (it removes the known finding: the baseline key disappears, nothing new appears)
equivalent("c07-eq-repaired-local-degree", "C07", (R, MODIFY_LOOP, MODIFY_FIXED))
# behaves exactly as the pinned tree does (the degree of the previous conclusion, hedges included, is what the next one starts from): the same
# failing input as the known finding L1, so it is not a new violation - a semantic decision cannot and should not tell the two spellings apart
equivalent("c07-carried-through-other-name", "C07", [(R, "        for proposition in self.conclusions:\n            if not proposition.variable:", "        last = None\n        for proposition in self.conclusions:\n            if not proposition.variable:"), (R, MODIFY_LOOP, MODIFY_FIXED.replace("                degree = activation_degree\n", "                degree = last if last is not None else activation_degree\n").replace("                activated_term = Activated(proposition.term, degree, implication)\n", "                activated_term = Activated(proposition.term, degree, implication)\n                last = degree\n"))])
equivalent("c01-eq-process-index-loops", "C01", (E, """        for block in self.rule_blocks:
            if block.enabled:
                block.activate()""", """        for rb in list(self.rule_blocks):
            if not rb.enabled:
                continue
            rb.activate()"""))

# ------------------------------------------------------------------------------------------ C17
mutant("c17-regress-builtin-min", ["C17", "C02"], (F, "                np.minimum,  # elementwise minimum of two operands (np.min reduces a single array)", "                min,"), "FunctionFactory/min")
mutant("c17-regress-bool-eq", "C17", (O, "        return scalar(np.isclose(a, b, rtol=0, atol=0, equal_nan=True))", "        return np.isclose(a, b, rtol=0, atol=0, equal_nan=True)"), "V7/Operation.eq/float")
mutant("c17-lt-returns-bool", "C17", (O, "        return scalar(a < b)", "        return a < b"), "V7/Operation.lt/float")
mutant("c17-gt-wrong-relation", "C17", (O, "        return scalar(a > b)", "        return scalar(a >= b)"), "V7/Operation.gt/relation")
mutant("c17-mod-additive-precedence", "C17", (F, """                np.remainder,
                arity=2,
                precedence=p(2),""", """                np.remainder,
                arity=2,
                precedence=p(3),"""), "T1/FunctionFactory/%")
mutant("c17-power-left-assoc", "C17", (F, """                "^",
                "Power",
                operator_type,
                np.float_power,
                arity=2,
                precedence=p(1),
                associativity=1,""", """                "^",
                "Power",
                operator_type,
                np.float_power,
                arity=2,
                precedence=p(1),
                associativity=-1,"""), "T1/FunctionFactory/^")
mutant("c17-cos-is-sin", "C17", (F, """                "Cosine",
                function_type,
                np.cos,""", """                "Cosine",
                function_type,
                np.sin,"""), "T12/FunctionFactory/cos")
mutant("c17-atan2-arity-1", "C17", (F, """                np.arctan2,
                arity=2,""", """                np.arctan2,
                arity=1,"""), "T12/FunctionFactory/atan2")
mutant("c17-and-or-swapped-precedence", ["C17", "C06"], [(F, """                np.logical_and,
                arity=2,
                precedence=p(4),""", """                np.logical_and,
                arity=2,
                precedence=p(5),"""), (F, """                np.logical_or,
                arity=2,
                precedence=p(5),""", """                np.logical_or,
                arity=2,
                precedence=p(4),""")], "T1/FunctionFactory/")
mutant("c17-and-right-assoc", ["C17", "C06"], (F, """                np.logical_and,
                arity=2,
                precedence=p(4),""", """                np.logical_and,
                arity=2,
                precedence=p(4),
                associativity=1,"""), "T1/FunctionFactory/and")
mutant("c17-pop-rule-lt", ["C17", "C06"], (T, "if (element.associativity < 0 and element.precedence <= top.precedence) or (", "if (element.associativity < 0 and element.precedence < top.precedence) or ("), "PD/Function.infix_to_postfix/transducer")
mutant("c17-pop-rule-right-le", ["C17", "C06"], (T, "element.associativity > 0 and element.precedence < top.precedence", "element.associativity > 0 and element.precedence <= top.precedence"), "PD/Function.infix_to_postfix/transducer")
mutant("c17-parse-pops-left-first", "C17", (T, """                if element.arity >= 1:
                    node.right = stack.pop()
                if element.arity == 2:
                    node.left = stack.pop()""", """                if element.arity == 2:
                    node.left = stack.pop()
                if element.arity >= 1:
                    node.right = stack.pop()"""), "PD2/Function.parse/tree")
mutant("c17-evaluate-swaps-operands", "C17", (T, """                    result = self.element.method(
                        self.left.evaluate(local_variables),
                        self.right.evaluate(local_variables),
                    )""", """                    result = self.element.method(
                        self.right.evaluate(local_variables),
                        self.left.evaluate(local_variables),
                    )"""), "W2/Function.Node.evaluate")
mutant("c17-arity-check-off-by-one", ["C17", "C16"], (T, "                if element.arity > len(stack):", "                if element.arity > len(stack) + 1:"), "PD2/Function.parse")
mutant("c17-comma-no-stack-check", ["C17", "C16"], (T, """                while stack and stack[-1] != "(":
                    queue.append(stack.pop())
                if not stack or stack[-1] != "(":
                    raise SyntaxError(f"mismatching parentheses in: {formula}")

            elif element and element.is_operator():""", """                while stack[-1] != "(":
                    queue.append(stack.pop())

            elif element and element.is_operator():"""), "PD/Function.infix_to_postfix")
mutant("c17-single-root-check-dropped", ["C17", "C16"], (T, """        if len(stack) != 1:
            raise SyntaxError(f"invalid formula: '{formula}'")
""", """        if len(stack) < 1:
            raise SyntaxError(f"invalid formula: '{formula}'")
"""), "PD2/Function.parse/single-root")
# (dropping the dedicated own-`x` check is behaviour-preserving as far as the property goes: the clash test that follows rejects an own
#  variable named x with the same ValueError; the shape rule of round 1 reported it, the interpretation of W3 rightly does not)
equivalent("c17-own-x-check-dropped", "C17", (T, """        if "x" in self.variables:
            raise ValueError(
                "variable 'x' is reserved for internal use of Function term, please "
                f"remove it from the map of variables: {self.variables}"
            )
""", ""))
mutant("c17-own-variables-not-merged", "C17", (T, "        engine_variables.update(self.variables)\n", ""), "W3/Function.membership/environment")
mutant("c17-duplicate-registration", "C17", (F, """                "fabs",
                "Absolute",""", """                "abs",
                "Absolute","""), "T1")
equivalent("c17-eq-precedence-rescaled", ["C17", "C06"], (F, """        maximum = 100
        step = 10
        return maximum - importance * step""", """        maximum = 1000
        step = 7
        return maximum - importance * step"""))
equivalent("c17-eq-gt-numpy-greater", "C17", (O, "        return scalar(a > b)", "        return scalar(np.greater(a, b))")) if False else None
equivalent("c17-eq-pop-rule-demorgan", ["C17", "C06"], (T, """                    if (element.associativity < 0 and element.precedence <= top.precedence) or (
                        element.associativity > 0 and element.precedence < top.precedence
                    ):
                        queue.append(stack.pop())
                    else:
                        break""", """                    left = element.associativity < 0
                    right = element.associativity > 0
                    if not ((left and not (element.precedence > top.precedence)) or (right and top.precedence > element.precedence)):
                        break
                    queue.append(stack.pop())"""))

# ------------------------------------------------------------------------------------------ C16 / C06 automata
mutant("c16-regress-stack-flag", "C16", (R, "            if state & (s_hedge | s_term):\n                raise SyntaxError(f\"expected hedge or term, but found '{token}'\")\n\n        if len(stack) != 1:", "            if stack & (s_hedge | s_term):\n                raise SyntaxError(f\"expected hedge or term, but found '{token}'\")\n\n        if len(stack) != 1:"), "LD/Antecedent.load")
mutant("c16-consequent-end-raise-deleted", "C16", (R, """            if state & s_is:
                raise SyntaxError(f"consequent expected keyword '{Rule.IS}' after '{token}'")
            if state & (s_hedge | s_term):
                raise SyntaxError(f"consequent expected hedge or term after '{token}' ")
""", """            if state & s_is:
                raise SyntaxError(f"consequent expected keyword '{Rule.IS}' after '{token}'")
"""), "LD/Consequent.load")
mutant("c16-after-is-accepts-variable", ["C16", "C06"], (R, """                if Rule.IS == token:
                    state = s_hedge | s_term
                    settings.logger.debug(f"token '{token}' is a keyword")""", """                if Rule.IS == token:
                    state = s_variable | s_and_or
                    settings.logger.debug(f"token '{token}' is a keyword")"""), "Antecedent.load")
mutant("c16-boolean-raises-typeerror", "C16", (I, """        raise SyntaxError(f"expected boolean in {['true', 'false']}, but got '{fll}'")""", """        raise TypeError(f"expected boolean in {['true', 'false']}, but got '{fll}'")"""), "X2/FllImporter.boolean")
mutant("c16-expression-before-root-check", "C16", (R, """        if len(stack) != 1:
            errors = " ".join(str(element) for element in stack)
            raise SyntaxError(f"unable to parse the following expressions: {errors}")

        self.expression = stack.pop()""", """        self.expression = stack[-1] if stack else None
        if len(stack) != 1:
            errors = " ".join(str(element) for element in stack)
            raise SyntaxError(f"unable to parse the following expressions: {errors}")
"""), "O9/Antecedent.load/commit-last")
mutant("c16-two-operand-guard-removed", ["C16", "C06"], (R, """                    if len(stack) < 2:
                        raise SyntaxError(
                            f"operator '{token}' expects 2 operands, but found {len(stack)}"
                        )
""", ""), "Antecedent.load")
mutant("c16-rule-accepts-trailing-token", "C16", (R, """            elif state == s_end:
                raise SyntaxError(f"unexpected token '{token}' in rule '{text}'")""", """            elif state == s_end:
                pass"""), "F1/Rule.parse")
mutant("c16-rule-missing-then-accepted", "C16", (R, """        if state == s_if:
            raise SyntaxError(f"expected keyword '{Rule.THEN}' in rule '{text}'")
""", ""), "Rule.parse") if False else None
mutant("c16-rule-empty-consequent-accepted", "C16", (R, """        if not consequent:
            raise SyntaxError(f"expected a consequent in rule '{text}'")
""", ""), "F1/Rule.parse")
mutant("c16-rule-weight-missing-accepted", "C16", (R, """        if state == s_with:
            raise SyntaxError(f"expected the rule weight in rule '{text}'")
""", ""), "F1/Rule.parse")
mutant("c16-consequent-and-after-hedge", "C16", (R, """            if state & s_and and Rule.AND == token:
                state = s_variable
                continue""", """            if Rule.AND == token:
                state = s_variable
                continue"""), "LD/Consequent.load")
mutant("c16-consequent-conclusions-appended-early", "C16", (R, """                    proposition = Proposition(variable)
                    conclusions.append(proposition)
                    state = s_is
                    continue

            if state & s_is and Rule.IS == token:""", """                    proposition = Proposition(variable)
                    self.conclusions.append(proposition)
                    conclusions.append(proposition)
                    state = s_is
                    continue

            if state & s_is and Rule.IS == token:"""), "O9/Consequent.load/commit-last")
mutant("c16-term-values-unguarded", "C16", (I, """        if len(values) < 2:
            raise SyntaxError(f"expected format 'term: name Term [parameters]', but got '{fll}'")
""", ""), "X4/FllImporter.term")
mutant("c16-any-keeps-expecting-term", ["C16", "C06"], (R, "state = s_variable | s_and_or if isinstance(hedge, Any) else s_hedge | s_term", "state = s_hedge | s_term"), "LD/Antecedent.load")
mutant("c16-hedge-before-is", ["C16", "C06"], (R, """                    proposition = Proposition(variable)
                    stack.append(proposition)
                    state = s_is""", """                    proposition = Proposition(variable)
                    stack.append(proposition)
                    state = s_is | s_hedge"""), "LD/Antecedent.load")
mutant("c16-proposition-none-deref", "C16", (R, """        s_variable, s_is, s_hedge, s_term, s_and_or = (2**i for i in range(5))
        state = s_variable
""", """        s_variable, s_is, s_hedge, s_term, s_and_or = (2**i for i in range(5))
        state = s_variable | s_hedge
"""), "Antecedent.load")
equivalent("c16-eq-flag-values", ["C16", "C06"], (R, "        s_variable, s_is, s_hedge, s_term, s_and_or = (2**i for i in range(5))", "        s_and_or, s_term, s_hedge, s_is, s_variable = (2**i for i in range(5))"))
equivalent("c16-eq-reorder-state-blocks", ["C16"], (R, """            if state & s_is and Rule.IS == token:
                state = s_hedge | s_term
                continue

            if state & s_hedge:
                factory = settings.factory_manager.hedge
                if token in factory:
                    hedge = factory.construct(token)
                    proposition.hedges.append(hedge)  # type: ignore
                    state = s_hedge | s_term
                    continue
""", """            if state & s_hedge:
                factory = settings.factory_manager.hedge
                if token in factory:
                    hedge = factory.construct(token)
                    proposition.hedges.append(hedge)  # type: ignore
                    state = s_hedge | s_term
                    continue

            if state & s_is and Rule.IS == token:
                state = s_hedge | s_term
                continue
"""))

# ------------------------------------------------------------------------------------------ C06 specific
mutant("c06-load-left-right-swapped", "C06", (R, """                    operator.right = stack.pop()
                    operator.left = stack.pop()""", """                    operator.left = stack.pop()
                    operator.right = stack.pop()"""), "W1/Antecedent.load")
mutant("c06-hedges-prepended", "C06", (R, """                    hedge = factory.construct(token)
                    proposition.hedges.append(hedge)  # type: ignore
                    state = s_variable | s_and_or if""", """                    hedge = factory.construct(token)
                    proposition.hedges.insert(0, hedge)  # type: ignore
                    state = s_variable | s_and_or if"""), "LD/Antecedent.load/effects")
mutant("c06-format-keeps-and-or", "C06", (T, "        operators -= {Rule.AND, Rule.OR}\n", "        operators -= {Rule.AND}\n"), "X1/Function.format_infix/alphabet")
mutant("c06-format-no-reverse", ["C06"], (T, "sorted(operators, reverse=True)", "sorted(operators)"), "X1/Function.format_infix/longest-first")
mutant("c06-any-applies-term", "C06", (R, """                if isinstance(node.hedges[-1], Any):
                    result = scalar(nan)
                    for hedge in reversed(node.hedges):
                        result = hedge.hedge(result)
                    return result""", """                if isinstance(node.hedges[-1], Any):
                    result = node.term.membership(node.variable.value)
                    for hedge in reversed(node.hedges):
                        result = hedge.hedge(result)
                    return result"""), "P9/Antecedent.activation_degree/any")
mutant("c06-operands-reversed-queue", "C06", (T, '        postfix = " ".join(queue)', '        postfix = " ".join(reversed(queue))'), "PD/Function.infix_to_postfix/")

# ------------------------------------------------------------------------------------------ C18
GRID = """            k = max(1, round(pow(values, (1.0 / inputs))))
            while k > 1 and k**inputs > values:
                k -= 1
            while (k + 1) ** inputs <= values:
                k += 1
            resolution = k - 1
"""
mutant("c18-regress-truncated-root", "C18", (X, GRID, "            resolution = -1 + max(1, int(pow(values, (1.0 / inputs))))\n"), "N1/FldExporter.write_from_scope/grid-size")
mutant("c18-floor-of-power", "C18", (X, GRID, "            import math\n\n            resolution = math.floor(values ** (1 / inputs)) - 1\n"), "N1/FldExporter.write_from_scope/grid-size")
mutant("c18-round-without-witness", "C18", (X, GRID, "            resolution = max(1, round(values ** (1.0 / inputs))) - 1\n"), "N1/FldExporter.write_from_scope/grid-size")
mutant("c18-increment-le", "C18", (O, "        if x[position] < maximum[position]:", "        if x[position] <= maximum[position]:"), "G8/Operation.increment/digit")
mutant("c18-increment-first-digit-fastest", "C18", (O, "            position = len(x) - 1\n", "            position = 0\n"), "G8/Operation.increment")
mutant("c18-write-without-restart", "C18", (X, "        engine.restart()\n\n        # TODO: Vectorization here", "        # TODO: Vectorization here"), "W4/FldExporter.write/order")
mutant("c18-header-wrong-switch", "C18", (X, """        if self.output_values:
            result += [ov.name for ov in engine.output_variables]""", """        if self.input_values:
            result += [ov.name for ov in engine.output_variables]"""), "S4/FldExporter.header")
mutant("c18-reader-skip-le", "C18", (X, "            if i < skip_lines:\n                continue", "            if i <= skip_lines:\n                continue"), "G9/")
mutant("c18-reader-keeps-comments", "C18", (X, """            if not line or line[0] == "#":
                continue""", """            if not line:
                continue"""), "G9/")
mutant("c18-columns-all-first", "C18", (X, "            variable.value = input_values[:, index]", "            variable.value = input_values[:, 0]"), "W4/FldExporter.write/columns")
mutant("c18-outputs-before-process", "C18", (X, """        engine.process()

        values: list[Any] = []
        if self.input_values:
            values.append(engine.input_values)
        if self.output_values:
            values.append(engine.output_values)""", """        values: list[Any] = []
        if self.input_values:
            values.append(engine.input_values)
        if self.output_values:
            values.append(engine.output_values)
        engine.process()
"""), "W4/FldExporter.write/read-after-process")
mutant("c18-each-variable-off-by-one", "C18", (X, "            resolution = values - 1\n", "            resolution = values\n"), "N2/FldExporter.write_from_scope/each-variable")
mutant("c18-decimals-hardcoded", "C18", (X, 'fmt=f"%0.{settings.decimals}f",', 'fmt="%0.3f",'), "W4/FldExporter.write/format")
mutant("c18-carry-wrong-list", "C18", (O, "incremented = Op.increment(x, minimum, maximum, position)", "incremented = Op.increment(x, minimum, minimum, position)"), "G8/Operation.increment/carry")
equivalent("c18-eq-integer-bisection-root", "C18", (X, GRID, """            lo, hi = 1, max(1, values)
            while lo < hi:
                mid = (lo + hi + 1) // 2
                if mid**inputs <= values:
                    lo = mid
                else:
                    hi = mid - 1
            resolution = lo - 1
"""))

# ------------------------------------------------------------------------------------------ C14
mutant("c14-import-lock-range-as-previous", "C14", (I, """            elif key == "lock-range":
                ov.lock_range = self.boolean(value)""", """            elif key == "lock-range":
                ov.lock_previous = self.boolean(value)"""), "T4/OutputVariable/lock-range")
mutant("c14-export-default-from-previous", "C14", (X, 'self.indent + self.format("default", variable.default_value),', 'self.indent + self.format("default", variable.previous_value),'), "OutputVariable")
mutant("c14-triangle-configure-swapped", "C14", (T, "        self.left, self.top, self.right, self.height = self._parse(3, parameters)", "        self.top, self.left, self.right, self.height = self._parse(3, parameters)"), "T6/Triangle/parameters")
mutant("c14-ramp-parse-3", "C14", (T, """        self.start, self.end, self.height = self._parse(2, parameters)


class Rectangle""", """        self.start, self.end, self.height = self._parse(3, parameters)


class Rectangle"""), "T6/Ramp/parameters")
mutant("c14-parse-default-weight-zero", "C14", (R, "        consequent: list[str] = []\n        weight = 1.0\n", "        consequent: list[str] = []\n        weight = 0.0\n"), "T8/Rule/weight")
mutant("c14-first-parameters-swapped", "C14", (A, """        return f"{Op.str(self.rules)} {Op.str(self.threshold)}"

    def configure(self, parameters: str) -> None:
        \"\"\"Configure the activation method with the parameters.

        Args:
            parameters: number of rules and threshold (eg, `3 0.5`).
        \"\"\"
        if parameters:
            rules, threshold = parameters.split()
            self.rules = int(rules)
            self.threshold = to_float(threshold)

    def activate(self, rule_block: RuleBlock) -> None:
        \"\"\"Activate the first""", """        return f"{Op.str(self.threshold)} {Op.str(self.rules)}"

    def configure(self, parameters: str) -> None:
        \"\"\"Configure the activation method with the parameters.

        Args:
            parameters: number of rules and threshold (eg, `3 0.5`).
        \"\"\"
        if parameters:
            rules, threshold = parameters.split()
            self.rules = int(rules)
            self.threshold = to_float(threshold)

    def activate(self, rule_block: RuleBlock) -> None:
        \"\"\"Activate the first"""), "T7/First/parameters") if False else None
mutant("c14-bell-ctor-no-default", "C14", (T, """        name: str = "",
        center: float = nan,
        width: float = nan,
        slope: float = nan,""", """        name: str,
        center: float = nan,
        width: float = nan,
        slope: float = nan,"""), "T9/Term/Bell")
mutant("c14-export-enabled-key-renamed", "C14", (X, """            self.indent + self.format("enabled", rule_block.enabled),""", """            self.indent + self.format("active", rule_block.enabled),"""), "T4/RuleBlock/")
mutant("c14-import-boolean-swapped", "C14", (I, """        if fll.strip() == "true":
            return True
        if fll.strip() == "false":
            return False""", """        if fll.strip() == "true":
            return False
        if fll.strip() == "false":
            return True"""), "T5/FllImporter.boolean/spelling")
mutant("c14-conjunction-read-as-snorm", "C14", (I, """            elif key == "conjunction":
                rb.conjunction = self.tnorm(value)""", """            elif key == "conjunction":
                rb.conjunction = self.snorm(value)"""), "T5/RuleBlock/conjunction")
mutant("c14-threshold-comparator-by-name", "C14", (A, '        return f"{self.comparator.value} {Op.str(self.threshold)}"', '        return f"{self.comparator.name} {Op.str(self.threshold)}"'), "T7/Threshold/parameters")
mutant("c14-highest-configure-dropped", "C14", (A, """        if parameters:
            self.rules = int(parameters)

    def activate(self, rule_block: RuleBlock) -> None:
        \"\"\"Activate the rules with the highest""", """        if parameters:
            pass

    def activate(self, rule_block: RuleBlock) -> None:
        \"\"\"Activate the rules with the highest"""), "T7/Highest/parameters")
mutant("c14-none-spelled-null", "C14", (X, '        return Op.class_name(norm) if norm else "none"', '        return Op.class_name(norm) if norm else "null"'), "T5/FllExporter.norm/none")
mutant("c14-range-setter-swapped", "C14", (V, "        self.minimum, self.maximum = min_max", "        self.maximum, self.minimum = min_max"), "T4/")
mutant("c14-lock-previous-not-exported", "C14", (X, '            self.indent + self.format("lock-previous", variable.lock_previous),\n', ''), "OutputVariable")
mutant("c14-gaussian-params-order", "C14", (T, "        return super()._parameters(self.mean, self.standard_deviation)", "        return super()._parameters(self.standard_deviation, self.mean)"), "T6/Gaussian/parameters")
mutant("c14-weighted-type-by-value", "C14", (D, "            self.type = WeightedDefuzzifier.Type[parameters]\n\n    @classmethod", "            self.type = WeightedDefuzzifier.Type(parameters)\n\n    @classmethod"), "T7/Weighted")
equivalent("c14-eq-key-order-changed", "C14", (I, """            elif key == "default":
                ov.default_value = to_float(value)
            elif key == "lock-previous":
                ov.lock_previous = self.boolean(value)""", """            elif key == "lock-previous":
                ov.lock_previous = self.boolean(value)
            elif key == "default":
                ov.default_value = to_float(value)"""))

# ------------------------------------------------------------------------------------------ C15
mutant("c15-variable-repr-pops-lock-range", "C15", (V, """        fields.pop("_value")

        if not self.description:
            fields.pop("description")
        if self.enabled:
            fields.pop("enabled")

        return representation.as_constructor(self, fields)

    def clear(self) -> None:
        \"\"\"Clear the variable to its initial state""", """        fields.pop("_value")
        fields.pop("lock_range")

        if not self.description:
            fields.pop("description")
        if self.enabled:
            fields.pop("enabled")

        return representation.as_constructor(self, fields)

    def clear(self) -> None:
        \"\"\"Clear the variable to its initial state"""), "R1/Variable.lock_range") if False else None
mutant("c15-output-variable-forgets-aggregation", "C15", (V, '        fields["aggregation"] = self.aggregation\n', ''), "R1/OutputVariable.aggregation")
mutant("c15-elision-polarity-flipped", "C15", (R, """        if self.enabled:
            fields.pop("enabled")
        return representation.as_constructor(self, fields)

    def activate(self)""", """        if not self.enabled:
            fields.pop("enabled")
        return representation.as_constructor(self, fields)

    def activate(self)"""), "R2/RuleBlock.enabled")
mutant("c15-default-changed-without-guard", "C15", (R, """        name: str = "",
        description: str = "",
        enabled: bool = True,
        conjunction: TNorm | None = None,""", """        name: str = "",
        description: str = "",
        enabled: bool = False,
        conjunction: TNorm | None = None,"""), "R2/RuleBlock.enabled")
mutant("c15-comparator-repr-by-name", "C15", (A, """            return f"'{self.value}'"

        @property
        def operator""", """            return f"'{self.name}'"

        @property
        def operator"""), "R6/Threshold.Comparator")
mutant("c15-literal-alias-in-rule-repr", "C15", (R, """        return f"{Op.class_name(self, qualname=True)}.{Rule.create.__name__}('{self.text}')\"""", """        return f"fl.Rule.{Rule.create.__name__}('{self.text}')\""""), "R5/Rule.__repr__")
mutant("c15-class-dropped-from-all", "C15", (N, '    "Maximum",\n', ''), "R7/norm/__all__")
mutant("c15-bell-height-default-changed", "C15", (T, """        width: float = nan,
        slope: float = nan,
        height: float = 1.0,""", """        width: float = nan,
        slope: float = nan,
        height: float = 0.5,"""), "R2/Bell.height")
mutant("c15-import-statement-ignores-star", "C15", (L, """        elif settings.alias == "*":
            return "from fuzzylite import *\"""", """        elif settings.alias == "all":
            return "from fuzzylite import *\""""), "R8/")
mutant("c15-weighted-type-repr-by-value", "C15", (D, """            return f"'{self.name}'"

    def __init__(
        self,
        type: str | WeightedDefuzzifier.Type = Type.Automatic,""", """            return f"'{self.value}'"

    def __init__(
        self,
        type: str | WeightedDefuzzifier.Type = Type.Automatic,"""), "R6/WeightedDefuzzifier.Type")
mutant("c15-encapsulate-without-import", "C15", (X, '        code = f"{representation.import_statement()}\\n\\n"', '        code = ""'), "R9/PythonExporter.encapsulate")
mutant("c15-engine-attr-renamed", "C15", (E, "        self.rule_blocks = list(rule_blocks or [])\n        if load:", "        self.rule_blocks = list(rule_blocks or [])\n        self.blocks = self.rule_blocks\n        if load:"), "", kind="equivalent")
mutant("c15-aggregated-pops-terms", "C15", (T, """        fields = vars(self).copy()
        fields.pop("height")
        return representation.as_constructor(self, fields)

    def parameters(self) -> str:""", """        fields = vars(self).copy()
        fields.pop("height")
        fields.pop("terms")
        return representation.as_constructor(self, fields)

    def parameters(self) -> str:"""), "R1/Aggregated.terms")
mutant("c15-settings-rename-dropped", "C15", (L, '        fields["factory_manager"] = fields.pop("_factory_manager")\n', ''), "R1/Settings.factory_manager")
equivalent("c15-eq-explicit-fields", "C15", (E, """        fields = vars(self).copy()
        if not self.description:
            fields.pop("description")
        return representation.as_constructor(self, fields)

    def configure(""", """        fields = {"name": self.name, "description": self.description, "input_variables": self.input_variables,
                  "output_variables": self.output_variables, "rule_blocks": self.rule_blocks}
        if not self.description:
            fields.pop("description")
        return representation.as_constructor(self, fields)

    def configure("""))

# ------------------------------------------------------------------------------------------ C13
mutant("c13-restart-without-clear", "C13", (E, """        for output_variable in self.output_variables:
            output_variable.clear()

    def process""", """        for output_variable in self.output_variables:
            pass

    def process"""), "H2/Engine.restart/outputs")
mutant("c13-restart-keeps-inputs", "C13", (E, """        for input_variable in self.input_variables:
            input_variable.value = nan
""", ""), "H2/Engine.restart/inputs")
mutant("c13-copy-shallow", "C13", (E, "        engine = copy.deepcopy(self)", "        engine = copy.copy(self)"), "H4/Engine.copy/deepcopy")
mutant("c13-term-deepcopy-returns-self", "C13", (T, """        return False

    def discretize(""", """        return False

    def __deepcopy__(self, memo: Any) -> Term:
        return self

    def discretize("""), "H4/copy-hook/Term.__deepcopy__")
mutant("c13-grouped-terms-stores-original", "C13", (T, """                groups[activated.term.name] = Activated(
                    activated.term, activated.degree, implication=None
                )
                continue""", """                groups[activated.term.name] = activated
                continue"""), "H6/Aggregated.grouped_terms/fresh-objects")
mutant("c13-mutable-default", "C13", (R, "        hedges: Iterable[Hedge] | None = None,", "        hedges: Iterable[Hedge] | None = [],"), "H4/mutable-default")
mutant("c13-class-level-cache", "C13", (T, """    def activation_degree(self, term: Term) -> Scalar:""", """    _cache: dict[str, Scalar] = {}

    def activation_degree(self, term: Term) -> Scalar:"""), "", kind="equivalent")
mutant("c13-class-level-cache-written", "C13", [(T, """    def activation_degree(self, term: Term) -> Scalar:""", """    _cache: dict[str, Scalar] = {}

    def activation_degree(self, term: Term) -> Scalar:"""), (T, "        activated = self.grouped_terms().get(term.name)\n", "        activated = self.grouped_terms().get(term.name)\n        Aggregated._cache[term.name] = activated\n")], "H4/shared-mutable/Aggregated._cache")
mutant("c13-previous-value-read-unlocked", "C13", (V, """        # Applying default values
        if not np.isnan(self.default_value):
            value[np.isnan(value)] = self.default_value  # type: ignore""", """        # Applying default values
        if not np.isnan(self.default_value):
            value[np.isnan(value)] = self.default_value  # type: ignore
        elif np.isnan(value).all():
            value = scalar(self.previous_value)"""), "H5/OutputVariable.defuzzify/previous-under-lock")
mutant("c13-proposition-reads-any-variable", "C13", (R, """            if isinstance(node.variable, InputVariable):
                result = node.term.membership(node.variable.value)
            elif isinstance(node.variable, OutputVariable):
                result = node.variable.fuzzy.activation_degree(node.term)""", """            result = node.term.membership(node.variable.value)"""), "H5/Antecedent.activation_degree/proposition-value")
mutant("c13-init-skips-update-reference", "C13", (E, """            for variable in self.variables:
                for term in variable.terms:
                    term.update_reference(self)
""", ""), "H7/Engine.__init__/update-references")
# load_rules unloads every rule before loading it: dropping the block-wide unload changes nothing (RB-sem, by interpretation, is silent; the shape rule H2 used to report it)
equivalent("c13-eq-reload-without-unload", "C13", (R, "        self.unload_rules()\n        self.load_rules(engine)", "        self.load_rules(engine)"))
mutant("c13-first-no-deactivate", ["C13", "C08"], (A, """        for rule in iter(rule_block.rules):
            rule.deactivate()
""", """        for rule in iter(rule_block.rules):
"""), "O-dea/First.activate")
equivalent("c13-eq-restart-order", "C13", (E, """        for input_variable in self.input_variables:
            input_variable.value = nan

        for rule_block in self.rule_blocks:
            rule_block.reload_rules(self)
""", """        for rule_block in self.rule_blocks:
            rule_block.reload_rules(self)

        for input_variable in self.input_variables:
            input_variable.value = nan
"""))

# ------------------------------------------------------------------------------------------ C02 / C03
mutant("c02-regress-uncoerced-defuzzify", "C02", (V, "        value = scalar(self.defuzzifier.defuzzify(self.fuzzy, self.minimum, self.maximum))", "        value = self.defuzzifier.defuzzify(self.fuzzy, self.minimum, self.maximum)"), "V2/OutputVariable.defuzzify")
mutant("c02-hedge-python-if", ["C02"], (H, "        y = np.where(x <= 0.5, 2 * x**2, 1 - 2 * (1 - x) ** 2)", "        y = 2 * x**2 if x <= 0.5 else 1 - 2 * (1 - x) ** 2"), "V1/Extremely.hedge")
mutant("c02-norm-builtin-min", "C02", (N, """        a = scalar(a)
        b = scalar(b)
        return np.minimum(a, b)


class NilpotentMinimum""", """        a = scalar(a)
        b = scalar(b)
        return min(a, b)


class NilpotentMinimum"""), "V1/Minimum.compute")
mutant("c02-term-math-exp", ["C02", "C03"], [(T, "import enum\nimport re\n", "import enum\nimport math\nimport re\n"), (T, "            * np.exp(-np.square(x - m) / (2.0 * std**2))", "            * math.exp(-np.square(x - m) / (2.0 * std**2))")], "Gaussian.membership")
mutant("c02-defuzzifier-float", "C02", (D, "        z = ((x * y).sum(axis=1) / y.sum(axis=1)).squeeze()", "        z = float((x * y).sum(axis=1) / y.sum(axis=1))"), "V1/Centroid.defuzzify")
mutant("c02-first-assert-removed", ["C02", "C08"], (A, """                activation_degree = rule.activate_with(conjunction, disjunction)
                self.assert_is_not_vector(activation_degree)
                if (
                    activated < self.rules
                    and activation_degree > 0.0
                    and activation_degree >= self.threshold
                ):
                    rule.trigger(implication)
                    activated += 1


class Last""", """                activation_degree = rule.activate_with(conjunction, disjunction)
                if (
                    activated < self.rules
                    and activation_degree > 0.0
                    and activation_degree >= self.threshold
                ):
                    rule.trigger(implication)
                    activated += 1


class Last"""), "First.activate")
mutant("c02-fill-forward-not-carried", ["C02", "C12"], (V, """                    else:
                        previous_value = value_i  # type: ignore
""", ""), "OutputVariable.defuzzify")
mutant("c02-input-column-zero", "C02", (E, "            v.value = values[:, i]", "            v.value = values[:, 0]"), "V3/Engine.input_values.setter/columns")
mutant("c02-input-3d-accepted", "C02", (E, """        elif values.ndim == 2:
            pass
        else:
            raise ValueError(""", """        elif values.ndim >= 2:
            pass
        else:
            raise ValueError("""), "V3/Engine.input_values.setter/dimensions")
mutant("c02-trigger-truth-on-degree", "C02", (R, "            self.triggered = array(self.activation_degree > 0.0)", "            self.triggered = array(True if self.activation_degree > 0.0 else False)"), "V1/Rule.trigger")
mutant("c02-aggregated-early-exit", "C02", (T, """        y = scalar(0.0)
        for term in self.terms:
            y = self.aggregation.compute(y, term.membership(x))  # type: ignore
        return y""", """        y = scalar(0.0)
        for term in self.terms:
            y = self.aggregation.compute(y, term.membership(x))  # type: ignore
            if y >= 1.0:
                break
        return y"""), "V1/Aggregated.membership")
mutant("c03-drop-height", "C03", (T, """        y = (
            self.height
            * np.where(np.isnan(x), np.nan, 1.0)
            * np.where(
                np.isfinite(x) & within,""", """        y = (
            1.0
            * np.where(np.isnan(x), np.nan, 1.0)
            * np.where(
                np.isfinite(x) & within,"""), "D1/Cosine.membership/height")
mutant("c03-rectangle-no-nan-mask", "C03", (T, "        y = self.height * np.where(np.isnan(x), np.nan, 1.0) * ((s <= x) & (x <= e))", "        y = self.height * ((s <= x) & (x <= e))"), "A1/Rectangle.membership")
mutant("c03-trapezoid-reads-top-left-twice", "C03", (T, """        b = self.top_left
        c = self.top_right
        d = self.bottom_right
        y = (""", """        b = self.top_left
        c = self.top_left
        d = self.bottom_right
        y = ("""), "D2/Trapezoid.membership/top_right")
mutant("c03-ramp-not-monotonic", ["C03", "C11"], (T, """        return True

    def tsukamoto(self, y: Scalar) -> Scalar:
        r\"\"\"Compute the tsukamoto value of the monotonic term for activation degree $y$.

        Note: Equation
            $y=\\begin{cases}""", """        return False

    def tsukamoto(self, y: Scalar) -> Scalar:
        r\"\"\"Compute the tsukamoto value of the monotonic term for activation degree $y$.

        Note: Equation
            $y=\\begin{cases}"""), "M1/") if False else None
mutant("c03-binary-no-nan-mask", "C03", (T, "        y = self.height * np.where(np.isnan(x), np.nan, 1.0) * np.where(right | left, 1.0, 0.0)", "        y = self.height * np.where(right | left, 1.0, 0.0)"), "A1/Binary.membership")
mutant("c03-zshape-no-nan-mask", "C03", (T, "        y = self.height * np.where(np.isnan(x), np.nan, 1.0) * z_shape", "        y = self.height * z_shape"), "A1/ZShape.membership")
equivalent("c03-eq-gaussian-redundant-mask", "C03", (T, """        y = (
            self.height
            * np.where(np.isnan(x), np.nan, 1.0)
            * np.exp(-np.square(x - m) / (2.0 * std**2))
        )""", """        y = (
            self.height
            * np.exp(-np.square(x - m) / (2.0 * std**2))
        )"""))
equivalent("c03-eq-spike-redundant-mask", "C03", (T, "        y = self.height * np.where(np.isnan(x), np.nan, 1.0) * np.exp(-np.abs(10.0 / w * (x - c)))", "        y = np.exp(-np.abs(10.0 / w * (x - c))) * self.height"))

# ------------------------------------------------------------------------------------------ C11
mutant("c11-ramp-ignores-height", "C11", (T, "        x = s + (e - s) * y / h\n", "        x = s + (e - s) * y\n"), "D3/Ramp.tsukamoto/parameters")
mutant("c11-sigmoid-ignores-argument", "C11", (T, "        x = i + np.log(h / y - 1.0) / -s", "        x = i + np.log(h / 0.5 - 1.0) / -s"), "D3/Sigmoid.tsukamoto/argument")
mutant("c11-concave-not-monotonic", ["C11", "C03"], (T, """        return True

    def tsukamoto(self, y: Scalar) -> Scalar:
        r\"\"\"Compute the tsukamoto value of the monotonic term for activation degree $y$.

        Note: Equation
            $y=\\\\begin{cases}""", """        return False

    def tsukamoto(self, y: Scalar) -> Scalar:
        r\"\"\"Compute the tsukamoto value of the monotonic term for activation degree $y$.

        Note: Equation
            $y=\\\\begin{cases}"""), "M1/") if False else None
mutant("c11-sshape-python-if", ["C11", "C02"], (T, """        x = np.where(
            y <= h / 2.0,
            s + (e - s) * np.sqrt(y / (2 * h)),
            e - (e - s) * np.sqrt((h - y) / (2 * h)),
        )
        return x

    def is_monotonic""", """        if y <= h / 2.0:
            x = s + (e - s) * np.sqrt(y / (2 * h))
        else:
            x = e - (e - s) * np.sqrt((h - y) / (2 * h))
        return x

    def is_monotonic"""), "V1/SShape.tsukamoto")
mutant("c11-triangle-claims-monotonic", ["C11", "C03"], (T, """        self.left, self.top, self.right, self.height = self._parse(3, parameters)
""", """        self.left, self.top, self.right, self.height = self._parse(3, parameters)

    def is_monotonic(self) -> bool:
        return True
"""), "M1/Triangle/monotonic")
mutant("c11-arc-unused-end", "C11", (T, """        r = e - s
        c = s + r
        sign = -1 if s < e else 1""", """        r = 1.0
        c = s + r
        sign = -1 if s < 0 else 1"""), "D3/Arc.tsukamoto/parameters")

# ------------------------------------------------------------------------------------------ C10
WSUM = """            weighted_sum = weighted_sum + np.where(w == 0.0, 0.0, w * z)
            weights = weights + w

        y = (weighted_sum / weights).squeeze()  # type: ignore
        return y
"""
mutant("c10-regress-zero-times-inf", "C10", (D, WSUM, WSUM.replace("np.where(w == 0.0, 0.0, w * z)", "w * z")), "W-sem/WeightedAverage.defuzzify/nan")
# equal for every degree >= 0 (w <= 0 is w == 0 there; * 1.0 is the identity): the sibling-comparison rule of earlier rounds reported the spelling
equivalent("c10-siblings-diverge", "C10", (D, WSUM, WSUM.replace("np.where(w == 0.0, 0.0, w * z)", "np.where(w <= 0.0, 0.0, w * z * 1.0)")))
mutant("c10-tsukamoto-selected-for-takagi", "C10", (D, """            if this_type == WeightedDefuzzifier.Type.Tsukamoto
            else Term.membership.__name__
        )
        for activated in fuzzy_output.grouped_terms().values():
            w = activated.degree
            z = activated.term.__getattribute__(membership)(w)
            # an activation with zero degree contributes nothing, even when z is infinite (eg, Sigmoid.tsukamoto(0))
            weighted_sum = weighted_sum + np.where(w == 0.0, 0.0, w * z)
            weights = weights + w

        y = (weighted_sum / weights).squeeze()  # type: ignore""", """            if this_type == WeightedDefuzzifier.Type.TakagiSugeno
            else Term.membership.__name__
        )
        for activated in fuzzy_output.grouped_terms().values():
            w = activated.degree
            z = activated.term.__getattribute__(membership)(w)
            # an activation with zero degree contributes nothing, even when z is infinite (eg, Sigmoid.tsukamoto(0))
            weighted_sum = weighted_sum + np.where(w == 0.0, 0.0, w * z)
            weights = weights + w

        y = (weighted_sum / weights).squeeze()  # type: ignore"""), "W-sem/WeightedAverage.defuzzify/value")
mutant("c10-ungrouped-terms", "C10", (D, """        for activated in fuzzy_output.grouped_terms().values():
            w = activated.degree
            z = activated.term.__getattribute__(membership)(w)
            # an activation with zero degree contributes nothing, even when z is infinite (eg, Sigmoid.tsukamoto(0))
            weighted_sum = weighted_sum + np.where(w == 0.0, 0.0, w * z)
            weights = weights + w

        y = weighted_sum / weights""", """        for activated in fuzzy_output.terms:
            w = activated.degree
            z = activated.term.__getattribute__(membership)(w)
            # an activation with zero degree contributes nothing, even when z is infinite (eg, Sigmoid.tsukamoto(0))
            weighted_sum = weighted_sum + np.where(w == 0.0, 0.0, w * z)
            weights = weights + w

        y = weighted_sum / weights"""), "W-sem/WeightedSum.defuzzify/grouping")
mutant("c10-infer-monotonic-as-takagi", "C10", (D, """        elif component.is_monotonic():
            return WeightedDefuzzifier.Type.Tsukamoto""", """        elif component.is_monotonic():
            return WeightedDefuzzifier.Type.TakagiSugeno"""), "T-inf/WeightedDefuzzifier.infer_type/monotonic")
mutant("c10-infer-mixed-silently-first", "C10", (D, """            raise TypeError(
                f"cannot infer type of {cls.__name__}, got multiple types: {sorted(str(t) for t in types)}"
            )""", """            return sorted(types, key=str)[0]"""), "T-inf/WeightedDefuzzifier.infer_type/collection-mixed")
mutant("c10-weighted-sum-plain", "C10", (D, """        y = weighted_sum / weights
        # This is done to get "invalid" output values from activated terms with zero activation degrees.
        # Thus, returning nan values in those cases. A regular weighted sum would result in zero.
        y = (y * weights).squeeze()  # type: ignore
        return y""", """        y = weighted_sum.squeeze()  # type: ignore
        return y"""), "W-sem/WeightedSum.defuzzify/nan")
mutant("c10-empty-seed-zero", "C10", (D, """        weighted_sum = scalar(0.0 if fuzzy_output.terms else nan)
        weights = scalar(0.0)
        membership = (
            Term.tsukamoto.__name__
            if this_type == WeightedDefuzzifier.Type.Tsukamoto
            else Term.membership.__name__
        )
        for activated in fuzzy_output.grouped_terms().values():
            w = activated.degree
            z = activated.term.__getattribute__(membership)(w)
            # an activation with zero degree contributes nothing, even when z is infinite (eg, Sigmoid.tsukamoto(0))
            weighted_sum = weighted_sum + np.where(w == 0.0, 0.0, w * z)
            weights = weights + w

        y = weighted_sum / weights""", """        weighted_sum = scalar(0.0)
        weights = scalar(1.0)
        membership = (
            Term.tsukamoto.__name__
            if this_type == WeightedDefuzzifier.Type.Tsukamoto
            else Term.membership.__name__
        )
        for activated in fuzzy_output.grouped_terms().values():
            w = activated.degree
            z = activated.term.__getattribute__(membership)(w)
            # an activation with zero degree contributes nothing, even when z is infinite (eg, Sigmoid.tsukamoto(0))
            weighted_sum = weighted_sum + np.where(w == 0.0, 0.0, w * z)
            weights = weights + w

        y = weighted_sum / weights"""), "W-sem/WeightedSum.defuzzify/nan")
mutant("c10-group-default-maximum", "C10", (T, "        aggregation = self.aggregation or UnboundedSum()", "        aggregation = self.aggregation or self.aggregation"), "W-grp/Aggregated.grouped_terms/default-aggregation")
mutant("c10-group-by-class", "C10", (T, """            if activated.term.name not in groups:
                groups[activated.term.name] = Activated(""", """            if activated.term.name not in groups:
                groups[type(activated.term).__name__] = Activated("""), "W-grp/Aggregated.grouped_terms/same-key")
equivalent("c10-eq-mask-z-instead", "C10", [(D, WSUM, WSUM.replace("np.where(w == 0.0, 0.0, w * z)", "w * np.where(w == 0.0, 0.0, z)")),
    (D, """            weighted_sum = weighted_sum + np.where(w == 0.0, 0.0, w * z)
            weights = weights + w

        y = weighted_sum / weights""", """            weighted_sum = weighted_sum + w * np.where(w == 0.0, 0.0, z)
            weights = weights + w

        y = weighted_sum / weights""")])

# ------------------------------------------------------------------------------------------ C09
mutant("c09-lom-mask-ge", "C09", (D, """        y_max = (y > 0) & (y == y.max(axis=1, keepdims=True))
        lom = np.where(y_max, x, np.nan)""", """        y_max = (y >= 0) & (y == y.max(axis=1, keepdims=True))
        lom = np.where(y_max, x, np.nan)"""), "LargestOfMaximum")
mutant("c09-som-mask-dropped", "C09", (D, """        y_max = (y > 0) & (y == y.max(axis=1, keepdims=True))
        som = np.where(y_max, x, np.nan)""", """        y_max = y == y.max(axis=1, keepdims=True)
        som = np.where(y_max, x, np.nan)"""), "SmallestOfMaximum")
mutant("c09-centroid-axis-0", "C09", (D, "        z = ((x * y).sum(axis=1) / y.sum(axis=1)).squeeze()", "        z = ((x * y).sum(axis=1) / y.sum(axis=0)).squeeze()"), "R3/Centroid.defuzzify/axis")
mutant("c09-som-lom-reducers-swapped", "C09", [(D, "            z = np.nanmax(lom, axis=1).squeeze()", "            z = np.nanmin(lom, axis=1).squeeze()"), (D, "            z = np.nanmin(som, axis=1).squeeze()", "            z = np.nanmax(som, axis=1).squeeze()")], "R1/")
mutant("c09-midpoints-swapped", "C09", (D, """        x = np.atleast_2d(Op.midpoints(minimum, maximum, self.resolution))
        y = np.atleast_2d(term.membership(x))
        z = ((x * y).sum""", """        x = np.atleast_2d(Op.midpoints(maximum, minimum, self.resolution))
        y = np.atleast_2d(term.membership(x))
        z = ((x * y).sum"""), "S1/Centroid.defuzzify/x")
mutant("c09-midpoints-left-edges", "C09", (O, "        return start + (np.array(range(resolution)) + 0.5) * ((end - start) / resolution)", "        return start + (np.array(range(resolution))) * ((end - start) / resolution)"), "S5/Operation.midpoints")
mutant("c09-mom-per-column-max", "C09", (D, """        y_max = (y > 0) & (y == y.max(axis=1, keepdims=True))
        mom = np.where(y_max, x, np.nan)""", """        y_max = (y > 0) & (y == y.max(axis=0, keepdims=True))
        mom = np.where(y_max, x, np.nan)"""), "MeanOfMaximum")
mutant("c09-bisector-no-normalisation", "C09", (D, "        area = np.abs((area / area[:, [-1]]) - 0.5)", "        area = np.abs(area - 0.5)"), "S5/Bisector.defuzzify")
mutant("c09-centroid-unweighted", "C09", (D, "        z = ((x * y).sum(axis=1) / y.sum(axis=1)).squeeze()", "        z = ((x).sum(axis=1) / y.sum(axis=1)).squeeze()"), "S5/Centroid.defuzzify")
mutant("c09-default-resolution-used", "C09", (D, """        x = np.atleast_2d(Op.midpoints(minimum, maximum, self.resolution))
        y = np.atleast_2d(term.membership(x))
        area = np.nancumsum""", """        x = np.atleast_2d(Op.midpoints(minimum, maximum))
        y = np.atleast_2d(term.membership(x))
        area = np.nancumsum"""), "S1/Bisector.defuzzify/x")
mutant("c09-bisector-signed-distance", "C09", (D, "        area = np.abs((area / area[:, [-1]]) - 0.5)", "        area = (area / area[:, [-1]]) - 0.5"), "S5/Bisector.defuzzify/formula")
mutant("c09-bisector-first-column", "C09", (D, "        area = np.abs((area / area[:, [-1]]) - 0.5)", "        area = np.abs((area / area[:, [0]]) - 0.5)"), "S5/Bisector.defuzzify/formula")
mutant("c09-bisector-max-distance", "C09", (D, "        index = area == area.min(axis=1, keepdims=True)", "        index = area == area.max(axis=1, keepdims=True)"), "S5/Bisector.defuzzify/formula")
mutant("c09-bisector-plain-mean", "C09", (D, "            z = np.nanmean(bisectors, axis=1).squeeze()", "            z = np.mean(bisectors, axis=1).squeeze()"), "S5/Bisector.defuzzify/formula")
mutant("c09-bisector-where-exchanged", "C09", (D, "        bisectors = np.where(index, x, np.nan)", "        bisectors = np.where(index, np.nan, x)"), "S5/Bisector.defuzzify/formula")
mutant("c09-centroid-squared-weights", "C09", (D, "        z = ((x * y).sum(axis=1) / y.sum(axis=1)).squeeze()", "        z = ((x * y * y).sum(axis=1) / y.sum(axis=1)).squeeze()"), "S5/Centroid.defuzzify/formula")
mutant("c09-som-demorgan-wrong", "C09", [(D, """        y_max = (y > 0) & (y == y.max(axis=1, keepdims=True))
        som = np.where(y_max, x, np.nan)""", """        y_max = ~(y > 0) | (y != y.max(axis=1, keepdims=True))
        som = np.where(y_max, x, np.nan)""")], "R2/SmallestOfMaximum.defuzzify/mask")
equivalent("c09-eq-bisector-half-minus", "C09", (D, "        area = np.abs((area / area[:, [-1]]) - 0.5)", "        area = np.abs(0.5 - area / area[:, -1:])"))
equivalent("c09-eq-bisector-scaled", "C09", (D, "        area = np.abs((area / area[:, [-1]]) - 0.5)", "        area = np.abs((2.0 * area - area[:, [-1]]) / area[:, [-1]])"))
equivalent("c09-eq-centroid-function-forms", "C09", (D, "        z = ((x * y).sum(axis=1) / y.sum(axis=1)).squeeze()", "        z = np.squeeze(np.divide(np.sum(np.multiply(y, x), axis=1), np.sum(y, 1)))"))
equivalent("c09-eq-som-demorgan", "C09", [(D, """        y_max = (y > 0) & (y == y.max(axis=1, keepdims=True))
        som = np.where(y_max, x, np.nan)""", """        y_max = ~(y > 0) | (y != np.max(y, axis=1, keepdims=True))
        som = np.where(y_max, np.nan, x)""")])
equivalent("c09-eq-renamed-locals", "C09", (D, """        y_max = (y > 0) & (y == y.max(axis=1, keepdims=True))
        mom = np.where(y_max, x, np.nan)
        with warnings.catch_warnings():
            warnings.simplefilter("ignore")
            z = np.nanmean(mom, axis=1).squeeze()""", """        positive_maximum = (y == y.max(axis=1, keepdims=True)) & (y > 0)
        candidates = np.where(positive_maximum, x, np.nan)
        with warnings.catch_warnings():
            warnings.simplefilter("ignore")
            z = np.nanmean(candidates, axis=1).squeeze()"""))

# ------------------------------------------------------------------------------------------ C14 helpers
# (c14-parse-accepts-extra: retired - the edit is not observable through export / import: see DESIGN 10.19)
mutant("c14-parse-default-height-zero", "C14", (T, "            values.append(1.0)\n", "            values.append(0.0)\n"), "T6/Term._parse/default-height")
mutant("c14-parameters-height-first", "C14", (T, """        result: list[str] = []
        if args:
            result.extend(map(Op.str, args))
        if not Op.is_close(self.height, 1.0):
            result.append(Op.str(self.height))
        return " ".join(result)""", """        result: list[str] = []
        if not Op.is_close(self.height, 1.0):
            result.append(Op.str(self.height))
        if args:
            result.extend(map(Op.str, args))
        return " ".join(result)"""), "T6/Term._parameters/height-last")
mutant("c14-variable-skips-last-term", "C14", (X, "            result += [(self.indent + self.term(term)) for term in variable.terms]\n        return self.separator.join(result)\n\n    def input_variable", "            result += [(self.indent + self.term(term)) for term in variable.terms[:-1]]\n        return self.separator.join(result)\n\n    def input_variable"), "T4/Variable/terms")
equivalent("c14-eq-parse-restructured", "C14", (T, """        values = [to_float(x) for x in parameters.split()]
        if height and len(values) == required:
            values.append(1.0)
        if len(values) == required + height:
            return values""", """        values = [to_float(x) for x in parameters.split()]
        expected = required + (1 if height else 0)
        if len(values) == required and height:
            values.append(1.0)
        if not (len(values) != expected):
            return values"""))
mutant("c14-discrete-column-major", "C14", (T, "        return self.values.flatten().tolist()  # type: ignore", "        return self.values.T.flatten().tolist()  # type: ignore"), "T6/Discrete/parameters")
mutant("c14-discrete-odd-keeps-height-token", "C14", (T, "            self.height = to_float(as_list[-1])\n            del as_list[-1]\n", "            self.height = to_float(as_list[-1])\n"), "T6/Discrete/parameters")
# (c14-function-configure-no-load: retired - the edit is not observable through export / import: see DESIGN 10.19)
mutant("c14-linear-reversed", "C14", (T, "        self.coefficients = [to_float(p) for p in parameters.split()]", "        self.coefficients = [to_float(p) for p in reversed(parameters.split())]"), "T6/Linear/parameters")

# ------------------------------------------------------------------------------------------ C15 alias plumbing
mutant("c15-package-of-star-keeps-alias", "C15", (L, """            elif settings.alias == "*":
                package = \"\"""", """            elif settings.alias == "*":
                package = settings.alias"""), "R8/Representation.package_of/prefixes")
mutant("c15-repr-float-no-prefix", "C15", (L, """            infinity = f"{self.package_of(settings)}{np.abs(x)!r}\"""", """            infinity = f"{np.abs(x)!r}\""""), "R5/Representation.repr_float/prefix")
# the unqualified class name is what the FLL exporter writes and what the factories register under: a C14 matter (the representation asks for qualname=True)
mutant("c15-class-name-always-qualified", "C14", (O, """        package = ""
        if qualname:
            from .library import representation

            package = representation.package_of(x)
""", """        from .library import representation

        package = representation.package_of(x)
"""), "R5/Operation.class_name/prefix")

# ------------------------------------------------------------------------------------------ C03 at infinity
equivalent("c03-eq-cosine-redundant-isfinite", "C03", (T, "                np.isfinite(x) & within,", "                within,"))
mutant("c03-gaussian-sign", "C03", (T, "            * np.exp(-np.square(x - m) / (2.0 * std**2))", "            * np.exp(np.square(x - m) / (2.0 * std**2))"), "A1b/Gaussian.membership")
mutant("c03-spike-no-abs", "C03", (T, "np.exp(-np.abs(10.0 / w * (x - c)))", "np.exp(-(10.0 / w * (x - c)))"), "A1b/Spike.membership")
mutant("c03-sigmoid-difference-no-abs", "C03", (T, "        y = self.height * np.where(np.isnan(x), np.nan, 1.0) * np.abs(a - b)", "        y = self.height * np.where(np.isnan(x), np.nan, 1.0) * (a - b)"), "A1b/SigmoidDifference.membership")
mutant("c03-triangle-outside-nan", "C03", (T, """            * np.where(
                (x < a) | (x > c),
                0.0,
                np.where(
                    (x == b) | ((a == -inf) & (x < b)) | ((c == inf) & (x > b)),""", """            * np.where(
                (x < a) | (x > c),
                nan,
                np.where(
                    (x == b) | ((a == -inf) & (x < b)) | ((c == inf) & (x > b)),"""), "A1b/Triangle.membership")

# ------------------------------------------------------------------------------------------ seeded-change classes
HIGHEST_BODY = """                if activation_degree > 0.0:
                    heapq.heappush(activate, (-activation_degree, index))

        activated = 0
        while activate and activated < self.rules:
            index = heapq.heappop(activate)[1]
            rule_block.rules[index].trigger(implication)
            activated += 1


class Lowest"""
BOUNDED = """                if activation_degree > 0.0:
                    if len(activate) < self.rules:
                        heapq.heappush(activate, (activation_degree, KEYIDX))
                    elif activate and activation_degree > activate[0][0]:
                        heapq.heapreplace(activate, (activation_degree, KEYIDX))

        for _, index in sorted(activate, key=lambda item: (-item[0], SORTIDX)):
            rule_block.rules[abs(index)].trigger(implication)


class Lowest"""
mutant("seed-c08-bounded-heap-wrong-ties", "C08", (A, HIGHEST_BODY, BOUNDED.replace("KEYIDX", "index").replace("SORTIDX", "item[1]")), "A-sem/Highest.activate/selection")
equivalent("seed-c08-eq-bounded-heap-correct", "C08", (A, HIGHEST_BODY, BOUNDED.replace("KEYIDX", "-index").replace("SORTIDX", "-item[1]")))
mutant("seed-c07-break-on-disabled", ["C07", "C01"], (R, """            if proposition.variable.enabled:
                for hedge in reversed(proposition.hedges):""", """            if not proposition.variable.enabled:
                break
            if proposition.variable.enabled:
                for hedge in reversed(proposition.hedges):"""), "Consequent.modify/terms")
mutant("seed-c10-lru-cache", ["C10", "C13", "C01"], [(D, "import enum\nimport typing\n", "import enum\nimport functools\nimport typing\n"), (D, "    @classmethod\n    def infer_type(", "    @classmethod\n    @functools.lru_cache(maxsize=None)\n    def infer_type(")], "H8/")
mutant("seed-c12-shift-by-one", ["C12", "C02"], (V, """            with np.nditer(value, op_flags=[["readwrite"]]) as iterator:
                previous_value = self.previous_value
                for value_i in iterator:
                    if np.isnan(value_i):
                        value_i[...] = previous_value  # type:ignore
                    else:
                        previous_value = value_i  # type: ignore
""", """            preceding = np.append(self.previous_value, value.flat[:-1]).reshape(value.shape)
            value = np.where(np.isnan(value), preceding, value)
"""), "OutputVariable.defuzzify/lock-fill")
mutant("seed-c02-skip-inf", ["C02", "C12"], (V, "                    else:\n                        previous_value = value_i  # type: ignore", "                    elif np.isfinite(value_i):\n                        previous_value = value_i  # type: ignore"), "OutputVariable.defuzzify/lock-fill")
mutant("seed-c06-or-short-circuit", ["C06", "C01"], (R, """                return disjunction.compute(
                    self.activation_degree(conjunction, disjunction, node.left),
                    self.activation_degree(conjunction, disjunction, node.right),
                )

            raise ValueError(f"operator""", """                left = self.activation_degree(conjunction, disjunction, node.left)
                if array(left >= 1.0).all():
                    return left
                return disjunction.compute(left, self.activation_degree(conjunction, disjunction, node.right))

            raise ValueError(f"operator"""), "P9/Antecedent.activation_degree/")
mutant("seed-c09-isclose-maximum", "C09", (D, """        y_max = (y > 0) & (y == y.max(axis=1, keepdims=True))
        mom = np.where(y_max, x, np.nan)""", """        y_max = (y > 0) & np.isclose(y, y.max(axis=1, keepdims=True))
        mom = np.where(y_max, x, np.nan)"""), "MeanOfMaximum")
mutant("seed-c08-first-break-after-n", "C08", (A, """                    rule.trigger(implication)
                    activated += 1


class Last""", """                    rule.trigger(implication)
                    activated += 1
                    if activated >= self.rules:
                        break


class Last"""), "A-sem/First.activate/degrees")
mutant("c14-split-every-colon", "C14", (I, 'parts = Op.strip_comments(fll).split(":", maxsplit=1)', 'parts = Op.strip_comments(fll).split(":")'), "T13/FllImporter.extract_key_value")
mutant("c14-last-block-dropped", "C14", (I, """        if component and block:
            self._process(component, block, engine)
        return engine""", """        return engine"""), "T13/FllImporter.engine/flush")
mutant("c13-clear-keeps-value", ["C13", "C12"], (V, "        self.previous_value = nan\n        self.value = nan\n\n    def fuzzy_value", "        self.previous_value = nan\n\n    def fuzzy_value"), "OutputVariable.clear/value")
mutant("seed-c19-counter-overwritten", "C19", (E, "                        mamdani_consequents += isinstance(", "                        mamdani_consequents = isinstance("), "C1/Engine.is_ready/implication")
mutant("seed-c19-conjunction-last-rule-only", "C19", (E, 'conjunction_needed += f" {Rule.AND} " in rule.antecedent.text', 'conjunction_needed = f" {Rule.AND} " in rule.antecedent.text'), "Engine.is_ready")
mutant("seed-c18-int-plus-strict", "C18", [(X, "k = max(1, round(pow(values, (1.0 / inputs))))", "k = max(1, int(pow(values, (1.0 / inputs))))"), (X, "while (k + 1) ** inputs <= values:", "while (k + 1) ** inputs < values:")], "N1/")
mutant("seed-c16-unload-after-tokenising", "C16", (R, """        self.unload()
        if not self.text:
            raise SyntaxError("expected the antecedent of a rule, but found none")

        postfix = Function.infix_to_postfix(self.text)
""", """        if not self.text:
            self.unload()
            raise SyntaxError("expected the antecedent of a rule, but found none")

        postfix = Function.infix_to_postfix(self.text)
        self.unload()
"""), "O9/Antecedent.load/unload-first")
mutant("seed-c20-skip-unchanged", "C20", (L, "        rollback_settings = vars(self).copy()\n        for key, value in context_settings.items():\n            setattr(self, key, value)", "        rollback_settings = vars(self).copy()\n        context_settings = {key: value for key, value in context_settings.items() if rollback_settings[key] != value}\n        for key, value in context_settings.items():\n            setattr(self, key, value)"), "Y-sem/Settings.context/restored")
mutant("seed-c14-rule-block-without-engine", "C14", (I, "            rule_block = self.rule_block(self.separator.join(block), engine)", "            rule_block = self.rule_block(self.separator.join(block))"), "T14/FllImporter._process->rule_block")
mutant("seed-c14-term-no-update-reference", "C14", (I, "        term.update_reference(engine)\n        return term", "        return term"), "T")
mutant("seed-c15-maxlist-not-lifted", "C15", (L, "        self.maxlist *= increase_factor\n", ""), "R11/Representation.__init__/maxlist")

# ------------------------------------------------------------------------------------------ C03 order types (A2 / A3)
mutant("c03-rectangle-open-left", "C03", (T, "((s <= x) & (x <= e))", "((s < x) & (x <= e))"), "A3")
mutant("c03-binary-open-edge", "C03", (T, "right = (self.direction > self.start) & (x >= self.start)", "right = (self.direction > self.start) & (x > self.start)"), "A3")
mutant("c03-zshape-strict-start", "C03", (T, """        z_shape = np.where(
            x <= s,""", """        z_shape = np.where(
            x < s,"""), "A3")
mutant("c03-triangle-peak-dropped", ["C03"], (T, "(x == b) | ((a == -inf) & (x < b)) | ((c == inf) & (x > b)),", "((a == -inf) & (x < b)) | ((c == inf) & (x > b)),"), "A2")
mutant("c03-triangle-closed-foot", ["C03"], (T, """                (x < a) | (x > c),
                0.0,
                np.where(
                    (x == b)""", """                (x <= a) | (x > c),
                0.0,
                np.where(
                    (x == b)"""), "A3")
equivalent("c03-eq-rectangle-flipped-comparisons", "C03", (T, "((s <= x) & (x <= e))", "((x >= s) & (e >= x))"))
equivalent("c03-eq-sshape-difference-test", "C03", (T, """        s_shape = np.where(
            x <= self.start,""", """        s_shape = np.where(
            x - self.start <= 0,"""))

# exact definitions (A3 normal forms): numeric changes that keep every sign class
mutant("c03-gaussian-variance-factor", "C03", (T, "* np.exp(-np.square(x - m) / (2.0 * std**2))", "* np.exp(-np.square(x - m) / (std**2))"), "A3")
mutant("c03-sigmoid-sign-of-slope", "C03", (T, "/ (1.0 + np.exp(-s * (x - i)))", "/ (1.0 + np.exp(s * (x - i)))"), "A3")
mutant("c03-spike-decay-constant", "C03", (T, "np.exp(-np.abs(10.0 / w * (x - c)))", "np.exp(-np.abs(1.0 / w * (x - c)))"), "A3")
mutant("c03-trapezoid-falling-denominator", "C03", (T, "                            (d - x) / (d - c),", "                            (d - x) / (d - b),"), "A3")
mutant("c03-triangle-rising-numerator", "C03", (T, """                        (x - a) / (b - a),
                        np.where(
                            x > b,
                            (c - x) / (c - b),""", """                        (x - a) / (c - a),
                        np.where(
                            x > b,
                            (c - x) / (c - b),"""), "A3")
mutant("c03-cosine-period", "C03", (T, "0.5 * (1.0 + np.cos(2.0 / w * np.pi * (x - c))),", "0.5 * (1.0 + np.cos(1.0 / w * np.pi * (x - c))),"), "A3")
mutant("c03-bell-exponent", "C03", (T, "np.power(np.abs((x - c) / w), 2.0 * s)", "np.power(np.abs((x - c) / w), s)"), "A3")
mutant("c03-sshape-branches-swapped", "C03", (T, """                x <= 0.5 * (s + e),
                2.0 * np.square((x - s) / (e - s)),""", """                x <= 0.5 * (s + e),
                2.0 * np.square((x - e) / (e - s)),"""), "A3")
equivalent("c03-eq-gaussian-power-form", "C03", (T, "* np.exp(-np.square(x - m) / (2.0 * std**2))", "* np.exp(-((x - m) ** 2) / (2.0 * std * std))"))
equivalent("c03-eq-sigmoid-reciprocal", "C03", (T, "/ (1.0 + np.exp(-s * (x - i)))", "* (1.0 / (1.0 + np.exp((i - x) * s)))"))

# ------------------------------------------------------------------------------------------ C11 inverse identity (I1)
mutant("c11-ramp-height-dropped", "C11", (T, "        x = s + (e - s) * y / h\n", "        x = s + (e - s) * y\n"), "I1")
mutant("c11-sigmoid-log-argument", "C11", (T, "x = i + np.log(h / y - 1.0) / -s", "x = i + np.log(h / y) / -s"), "I1")
mutant("c11-sigmoid-sign", "C11", (T, "x = i + np.log(h / y - 1.0) / -s", "x = i + np.log(h / y - 1.0) / s"), "I1")
mutant("c11-arc-branch-sign", "C11", (T, "sign = -1 if s < e else 1", "sign = 1 if s < e else -1"), "I1")
mutant("c11-arc-radius", "C11", (T, "x = c + sign * np.sqrt(r**2 - np.square(y * r / h))", "x = c + sign * np.sqrt(r**2 - np.square(y / h))"), "I1")
mutant("c11-concave-constant", "C11", (T, "x = h * (i - e) / y + 2 * e - i", "x = h * (i - e) / y + e - i"), "I1")
equivalent("c11-eq-ramp-reassociated", "C11", (T, "        x = s + (e - s) * y / h\n", "        x = (y / h) * (e - s) + s\n"))
equivalent("c11-eq-sigmoid-log-difference", "C11", (T, "x = i + np.log(h / y - 1.0) / -s", "x = i - np.log((h - y) / y) / s"))
mutant("c11-sshape-branches-swapped", "C11", (T, """            y <= h / 2.0,
            s + (e - s) * np.sqrt(y / (2 * h)),
            e - (e - s) * np.sqrt((h - y) / (2 * h)),""", """            y >= h / 2.0,
            s + (e - s) * np.sqrt(y / (2 * h)),
            e - (e - s) * np.sqrt((h - y) / (2 * h)),"""), "I1")
mutant("c11-sshape-lower-root", "C11", (T, """            s + (e - s) * np.sqrt(y / (2 * h)),
            e - (e - s) * np.sqrt((h - y) / (2 * h)),""", """            s + (e - s) * np.sqrt(y / h),
            e - (e - s) * np.sqrt((h - y) / (2 * h)),"""), "I1")

# ------------------------------------------------------------------------------------------ C04 norms
N = "fuzzylite/norm.py"
mutant("c04-algebraic-product-square", "C04", (N, "        return a * b\n", "        return a * a\n"), "F")
mutant("c04-bounded-difference-offset", "C04", (N, "return np.maximum(0, a + b - 1)", "return np.maximum(0, a + b - 0.5)"), "F")
mutant("c04-drastic-product-condition", "C04", (N, "return np.where(np.maximum(a, b) == 1.0, np.minimum(a, b), 0.0)", "return np.where(np.minimum(a, b) == 1.0, np.minimum(a, b), 0.0)"), "F")
mutant("c04-einstein-product-constant", "C04", (N, "return (a * b) / (2.0 - (a + b - a * b))", "return (a * b) / (3.0 - (a + b - a * b))"), "F")
mutant("c04-hamacher-sum-factor", "C04", (N, "(a + b - 2.0 * a * b) / (1.0 - a * b)", "(a + b - a * b) / (1.0 - a * b)"), "F")
mutant("c04-nilpotent-minimum-closed", "C04", (N, "return np.where(a + b > 1.0, np.minimum(a, b), 0.0)", "return np.where(a + b >= 1.0, np.minimum(a, b), 0.0)"), "F")
mutant("c04-nilpotent-maximum-closed", "C04", (N, "return np.where(a + b < 1.0, np.maximum(a, b), 1.0)", "return np.where(a + b <= 1.0, np.maximum(a, b), 1.0)"), "F")
mutant("c04-normalized-sum-floor", "C04", (N, "return (a + b) / np.maximum(1.0, a + b)", "return (a + b) / np.maximum(0.5, a + b)"), "F")
mutant("c04-maximum-is-minimum", "C04", (N, "        return np.maximum(a, b)\n", "        return np.minimum(a, b)\n"), "F")
mutant("c04-algebraic-sum-not-commutative", "C04", (N, "return a + b - (a * b)", "return a + b - (a * a)"), "L1")
mutant("c04-einstein-sum-denominator", "C04", (N, "return (a + b) / (1.0 + a * b)", "return (a + b) / (1.0 + a + b)"), "F")
equivalent("c04-eq-einstein-sum-reordered", "C04", (N, "return (a + b) / (1.0 + a * b)", "return (b + a) / (a * b + 1.0)"))
equivalent("c04-eq-drastic-product-flipped", "C04", (N, "return np.where(np.maximum(a, b) == 1.0, np.minimum(a, b), 0.0)", "return np.where(1.0 == np.maximum(b, a), np.minimum(b, a), 0.0)"))
equivalent("c04-eq-nilpotent-minimum-rearranged", "C04", (N, "return np.where(a + b > 1.0, np.minimum(a, b), 0.0)", "return np.where(a > 1.0 - b, np.minimum(a, b), 0.0)"))
equivalent("c04-eq-hamacher-product-factored", "C04", (N, "(a * b) / (a + b - a * b)", "(a * b) / (a * (1.0 - b) + b)"))

# ------------------------------------------------------------------------------------------ C05 hedges
HG = "fuzzylite/hedge.py"
mutant("c05-very-cube", "C05", (HG, "        y = x**2\n", "        y = x**3\n"), "F")
mutant("c05-somewhat-identity", "C05", (HG, "        y = np.sqrt(x)\n", "        y = x\n"), "F")
mutant("c05-extremely-branch-point", "C05", (HG, "y = np.where(x <= 0.5, 2 * x**2, 1 - 2 * (1 - x) ** 2)", "y = np.where(x <= 0.25, 2 * x**2, 1 - 2 * (1 - x) ** 2)"), "F")
mutant("c05-seldom-factor", "C05", (HG, "np.sqrt(0.5 * x), 1 - np.sqrt(0.5 * (1 - x))", "np.sqrt(x), 1 - np.sqrt(0.5 * (1 - x))"), "F")
mutant("c05-not-identity", "C05", (HG, "        y = 1 - x\n", "        y = x\n"), "F")
mutant("c05-any-half", "C05", (HG, "y = np.full_like(x, 1.0)", "y = np.full_like(x, 0.5)"), "F")
mutant("c05-extremely-upper-coefficient", "C05", (HG, "1 - 2 * (1 - x) ** 2)", "1 - (1 - x) ** 2)"), "F")
equivalent("c05-eq-extremely-open-branch", "C05", (HG, "y = np.where(x <= 0.5, 2 * x**2,", "y = np.where(x < 0.5, x * x * 2,"))
equivalent("c05-eq-seldom-division", "C05", (HG, "np.sqrt(0.5 * x), 1 - np.sqrt(0.5 * (1 - x))", "np.sqrt(x / 2), 1 - np.sqrt((1 - x) / 2)"))

# ------------------------------------------------------------------------------------------ pushdown rules (PD / PD2), session 3
PD_PROPS = ["C06", "C16", "C17"]
mutant("pd-comma-no-pop", PD_PROPS, (T, """            elif token == ",":
                while stack and stack[-1] != "(":
                    queue.append(stack.pop())""", """            elif token == ",":
                while stack and stack[-1] == "(":
                    queue.append(stack.pop())"""), "PD/Function.infix_to_postfix")
mutant("pd-function-not-popped-after-group", PD_PROPS, (T, """                    if factory.objects[stack[-1]].is_function():
                        queue.append(stack.pop())""", """                    if factory.objects[stack[-1]].is_operator():
                        queue.append(stack.pop())"""), "PD/Function.infix_to_postfix/transducer")
mutant("pd-operand-to-stack", PD_PROPS, (T, """            if is_operand:
                queue.append(token)""", """            if is_operand:
                queue.appendleft(token)"""), "")
mutant("pd-lparen-not-pushed", PD_PROPS, (T, """            elif token == "(":
                stack.append(token)""", """            elif token == "(":
                pass"""), "PD/Function.infix_to_postfix")
mutant("pd-end-accepts-paren", PD_PROPS, (T, """            if stack[-1] in {"(", ")"}:
                raise SyntaxError(f"mismatching parentheses in: {formula}")
            queue.append(stack.pop())""", """            if stack[-1] in {")"}:
                raise SyntaxError(f"mismatching parentheses in: {formula}")
            queue.append(stack.pop())"""), "PD/Function.infix_to_postfix/unbalanced")
mutant("pd-end-fifo", PD_PROPS, (T, """                raise SyntaxError(f"mismatching parentheses in: {formula}")
            queue.append(stack.pop())

        postfix""", """                raise SyntaxError(f"mismatching parentheses in: {formula}")
            queue.append(stack.pop(0))

        postfix"""), "PD/Function.infix_to_postfix")
mutant("pd-operator-pops-paren", PD_PROPS, (T, """                while stack and stack[-1] in factory.objects:
                    top = factory.objects[stack[-1]]""", """                while stack:
                    top = factory.objects[stack[-1]]"""), "PD/Function.infix_to_postfix/no-internal-error")
mutant("pd-rparen-keyerror-type", PD_PROPS, (T, """                if not stack or stack[-1] != "(":
                    raise SyntaxError(f"mismatching parentheses in: {formula}")

                stack.pop()  # get rid of "(\"""", """                if not stack or stack[-1] != "(":
                    raise RuntimeError(f"mismatching parentheses in: {formula}")

                stack.pop()  # get rid of "(\""""), "PD/Function.infix_to_postfix/unbalanced")
mutant("pd2-arity-ge", ["C16", "C17"], (T, "                if element.arity > len(stack):", "                if element.arity > len(stack) + 1:"), "PD2/Function.parse")
mutant("pd2-left-right-swapped", ["C16", "C17"], (T, """                if element.arity >= 1:
                    node.right = stack.pop()
                if element.arity == 2:
                    node.left = stack.pop()""", """                if element.arity >= 1:
                    node.left = stack.pop()
                if element.arity == 2:
                    node.right = stack.pop()"""), "PD2/Function.parse/tree")
mutant("pd2-many-roots-accepted", ["C16", "C17"], (T, """        if len(stack) != 1:
            raise SyntaxError(f"invalid formula: '{formula}'")""", """        if len(stack) < 1:
            raise SyntaxError(f"invalid formula: '{formula}'")"""), "PD2/Function.parse/single-root")
mutant("pd2-variable-as-constant", ["C16", "C17"], (T, """                except ValueError:
                    node = Function.Node(variable=token)""", """                except ValueError:
                    node = Function.Node(constant=token)"""), "PD2/Function.parse/tree")

# ------------------------------------------------------------------------------------------ Y-sem (Settings.context), session 3
CTX_TAIL = """        rollback_settings = vars(self).copy()
        for key, value in context_settings.items():
            setattr(self, key, value)
        try:
            yield
        finally:
            for key, value in context_settings.items():
                setattr(self, key, rollback_settings[key])
"""
mutant("c20-sem-snapshot-after-apply", "C20", (L, CTX_TAIL, """        for key, value in context_settings.items():
            setattr(self, key, value)
        rollback_settings = vars(self).copy()
        try:
            yield
        finally:
            for key, value in context_settings.items():
                setattr(self, key, rollback_settings[key])
"""), "Y-sem/Settings.context/restored")
mutant("c20-sem-restore-all", "C20", (L, CTX_TAIL, CTX_TAIL.replace("""            for key, value in context_settings.items():
                setattr(self, key, rollback_settings[key])""", """            for key in rollback_settings:
                setattr(self, key, rollback_settings[key])""")), "Y-sem/Settings.context/others-untouched")
mutant("c20-sem-swallow", "C20", (L, CTX_TAIL, CTX_TAIL.replace("""        finally:
            for key, value""", """        except ValueError:
            pass
        finally:
            for key, value""")), "Y-sem/Settings.context/protocol")
mutant("c20-sem-restore-first-only", "C20", (L, CTX_TAIL, CTX_TAIL.replace("""                setattr(self, key, rollback_settings[key])
""", """                setattr(self, key, rollback_settings[key])
                break
""")), "Y-sem/Settings.context/restored")
mutant("c20-sem-apply-none-too", "C20", (L, """if not (key == "self" or value is None)""", """if not (key == "self")"""), "Y-sem/Settings.context")
mutant("c20-sem-restore-new-value", "C20", (L, CTX_TAIL, CTX_TAIL.replace("setattr(self, key, rollback_settings[key])", "setattr(self, key, value)")), "Y-sem/Settings.context/restored")
mutant("c20-sem-delattr", "C20", (L, CTX_TAIL, CTX_TAIL.replace("setattr(self, key, rollback_settings[key])", "delattr(self, key)")), "Y-sem/Settings.context")

# ------------------------------------------------------------------------------------------ other rules added in session 3
mutant("c18-g10-all-active", "C18", (X, """                if variable in active_variables:
                    dx = variable.drange / max(1.0, resolution)""", """                if resolution > 0:
                    dx = variable.drange / max(1.0, resolution)"""), "G10/FldExporter.write_from_scope")
mutant("c18-g10-inverted", "C18", (X, """                if variable in active_variables:
                    dx = variable.drange / max(1.0, resolution)""", """                if variable not in active_variables:
                    dx = variable.drange / max(1.0, resolution)"""), "G10/FldExporter.write_from_scope")
mutant("c19-tok-consequent", ["C16", "C19"], (R, """        token: str | None = None
        for token in self.text.split():
            if state & s_variable:
                variable = output_variables.get(token)""", """        token: str | None = None
        for token in self.text.split(" "):
            if state & s_variable:
                variable = output_variables.get(token)"""), "Consequent.load/tokeniser")
mutant("c19-tok-join-tab", ["C16", "C19"], (R, """self.antecedent.text = " ".join(antecedent)""", """self.antecedent.text = "\\t".join(antecedent)"""), "Rule.parse/antecedent-text")
mutant("c17-const-precedence-low", "C17", (F, """                lambda: np.pi,
                arity=0,
                precedence=p(0),""", """                lambda: np.pi,
                arity=0,
                precedence=p(5),"""), "T1/FunctionFactory/pi/constant")
mutant("c13-copy-restarts-original", "C13", (E, """        engine = copy.deepcopy(self)
        return engine""", """        engine = copy.deepcopy(self)
        self.restart()
        return engine"""), "H4/Engine.copy/original-untouched")
mutant("c12-who-writes-value", ["C12", "C02"], (V, """        self.previous_value = nan
        self.value = nan""", """        self.previous_value = nan
        self._value = nan"""), "writes-_value")
mutant("c07-degree-out-param", ["C07", "C13"], (T, "self._degree = np.nan_to_num(value, nan=0.0, neginf=0.0, posinf=1.0)", "self._degree = np.nan_to_num(value, nan=0.0, neginf=0.0, posinf=1.0, copy=False)"), "in-place:copy=False")
mutant("c04-raw-product", ["C04", "C02"], (N, """        a = scalar(a)
        b = scalar(b)
        return a * b""", """        return scalar(a * b)"""), "V8/AlgebraicProduct.compute")
mutant("c05-raw-square", ["C05", "C02"], (H, """        x = scalar(x)
        y = x**2
        return y""", """        y = scalar(x**2)
        return y"""), "V8/Very.hedge")
mutant("c15-truthy-rule-block", ["C14", "C15"], (X, """        return self.to_string(rule_block)

    def term(self, term: Term, /) -> str:""", """        return self.to_string(rule_block) if rule_block else "None"

    def term(self, term: Term, /) -> str:"""), "truthiness:rule_block")
mutant("c08-bypass-trigger", ["C01", "C07", "C08"], (A, """                rule.activate_with(conjunction, disjunction)
                rule.trigger(implication)


class First""", """                rule.activate_with(conjunction, disjunction)
                rule.trigger(implication)
                rule.consequent.modify(rule.activation_degree, implication)


class First"""), "modifies-consequent")
mutant("c16-consequent-or-update", ["C16", "C07"], (R, """                    proposition.hedges.append(hedge)  # type: ignore
                    state = s_hedge | s_term
                    continue

            if state & s_term:
                terms = {t.name: t for t in proposition.variable.terms}  # type: ignore""", """                    proposition.hedges.append(hedge)  # type: ignore
                    state = s_hedge | s_term
                    state |= s_and
                    continue

            if state & s_term:
                terms = {t.name: t for t in proposition.variable.terms}  # type: ignore"""), "Consequent.load")

# ------------------------------------------------------------------------------------------ G11 grid semantics (C18)
mutant("c18-g11-first-input-fastest", "C18", [(O, "            position = len(x) - 1\n", "            position = 0\n"), (O, "if not x or position < 0:", "if not x or position >= len(x):"),
                                               (O, "incremented = position != 0", "incremented = position != len(x) - 1"),
                                               (O, "            position -= 1\n            if position >= 0:", "            position += 1\n            if position < len(x):")], "")
mutant("c18-g11-offset-grid", "C18", (X, "value = variable.minimum + sample_values[index] * dx", "value = variable.minimum + (sample_values[index] + 1) * dx"), "G11/FldExporter.write_from_scope/grid-values")
mutant("c18-g11-exclusive-end", "C18", (X, "dx = variable.drange / max(1.0, resolution)", "dx = variable.drange / max(1.0, resolution + 1)"), "G11/FldExporter.write_from_scope/grid-values")
mutant("c18-g11-no-upward-correction", "C18", (X, """            while (k + 1) ** inputs <= values:
                k += 1
""", ""), "G11/FldExporter.write_from_scope/grid-size")
mutant("c18-g11-each-variable-off-by-one", "C18", (X, """        else:
            resolution = values - 1

        sample_values""", """        else:
            resolution = values

        sample_values"""), "FldExporter.write_from_scope")

# ------------------------------------------------------------------------------------------ V9 shapes (C02)
mutant("c02-shape-activated-no-transpose", "C02", (T, "            np.atleast_2d(self.degree).T,\n", "            np.atleast_2d(self.degree),\n"), "V9/Activated.membership")
mutant("c02-shape-activated-no-squeeze", "C02", (T, "        return y.squeeze()  # type:ignore", "        return y  # type:ignore"), "V9/")
mutant("c02-shape-centroid-no-squeeze", "C02", (D, "z = ((x * y).sum(axis=1) / y.sum(axis=1)).squeeze()", "z = ((x * y).sum(axis=1) / y.sum(axis=1))"), "V9/Centroid.defuzzify")
mutant("c02-shape-centroid-axis0", "C02", (D, "z = ((x * y).sum(axis=1) / y.sum(axis=1)).squeeze()", "z = ((x * y).sum(axis=0) / y.sum(axis=0)).squeeze()"), "V9/Centroid.defuzzify")
mutant("c02-shape-bisector-no-keepdims", "C02", (D, "index = area == area.min(axis=1, keepdims=True)", "index = area == area.min(axis=1)"), "V9/Bisector.defuzzify")
mutant("c02-shape-bisector-last-column", "C02", (D, "area = np.abs((area / area[:, [-1]]) - 0.5)", "area = np.abs((area / area[:, -1]) - 0.5)"), "V9/Bisector.defuzzify")
mutant("c02-shape-weighted-sum-total", "C02", (D, "        y = (weighted_sum / weights).squeeze()  # type: ignore", "        y = (weighted_sum / weights).sum()  # type: ignore"), "V9/WeightedAverage.defuzzify")
mutant("c02-shape-kernel-global-max", "C02", (N, """        a = scalar(a)
        b = scalar(b)
        return np.minimum(a, b)""", """        a = scalar(a)
        b = scalar(b)
        return np.minimum(a, b).min()"""), "V9/Minimum.compute")

# ------------------------------------------------------------------------------------------ O-sem cascade semantics (C12)
mutant("c12-sem-previous-from-first-row", "C12", (V, "self.previous_value = np.take(self.value, -1).astype(float)", "self.previous_value = np.take(self.value, 0).astype(float)"), "OutputVariable.defuzzify")
mutant("c12-sem-filler-from-stored-attribute", "C12", (V, "                        value_i[...] = previous_value  # type:ignore", "                        value_i[...] = self.previous_value  # type:ignore"), "OutputVariable.defuzzify")
mutant("c12-sem-default-fills-everything", "C12", (V, "            value[np.isnan(value)] = self.default_value  # type: ignore", "            value[...] = np.where(np.isnan(value), self.default_value, self.default_value)  # type: ignore"), "OutputVariable.defuzzify")

# ------------------------------------------------------------------------------------------ T17 number formatting (C14)
mutant("c14-str-zero-d-fixed-three", "C14", (O, '                return f"{x.item():.{settings.decimals}f}"', '                return f"{x.item():.3f}"'), "T17/Operation.str")
mutant("c14-str-general-format", "C14", (O, '            return f"{x:.{settings.decimals}f}"', '            return f"{x:.{settings.decimals}g}"'), "T17/Operation.str")

# ------------------------------------------------------------------------------------------ C14 RT-sem (round trip by interpretation)
mutant("c14-rt-term-name-and-class-swapped", "C14", (X, "            (Op.as_identifier(term.name), Op.class_name(term), term.parameters()),", "            (Op.class_name(term), Op.as_identifier(term.name), term.parameters()),"), "RT-sem/")
mutant("c14-rt-floats-printed-with-str", "C14", (X, "        elif isinstance(value, float):\n            result.append(Op.str(value))", "        elif isinstance(value, float):\n            result.append(str(value))"), "T10/")
mutant("c14-rt-importer-keeps-first-description-only", "C14", (I, """                elif key == "description":
                    engine.description = value""", """                elif key == "description":
                    engine.description = engine.description or value.split(":")[0]"""), "T10/Engine.description")
mutant("c14-rt-output-terms-before-defuzzifier-lost", "C14", (X, "        if variable.terms:\n            result += [(self.indent + self.term(term)) for term in variable.terms]\n        return self.separator.join(result)\n\n    def rule_block", "        if variable.terms and variable.defuzzifier:\n            result += [(self.indent + self.term(term)) for term in variable.terms]\n        return self.separator.join(result)\n\n    def rule_block"), "T10/")

# ------------------------------------------------------------------------------------------ tolerance comparisons next to exact ones (rounds 7-8)
mutant("c03-rectangle-tolerant-start", "C03", (T, "        y = self.height * np.where(np.isnan(x), np.nan, 1.0) * ((s <= x) & (x <= e))", "        y = self.height * np.where(np.isnan(x), np.nan, 1.0) * (((s <= x) | Op.is_close(s, x)) & (x <= e))"), "A3/Rectangle.membership/definition")

# ------------------------------------------------------------------------------------------ C12 O9: what a defuzzifier hands out is its own
_O9_ANCHOR = """            return f"'{self.name}'"

    def __init__(
        self,
        type: str | WeightedDefuzzifier.Type = Type.Automatic,"""
_O9_SUM = """class WeightedSum(WeightedDefuzzifier):"""
_O9_DIV = "        y = (weighted_sum / weights).squeeze()  # type: ignore"
mutant("c12-defuzzifier-returns-kept-array-through-helper", "C12", [
    (D, _O9_ANCHOR, """            return f"'{self.name}'"

    _undefined = scalar(nan)

    def _empty(self) -> Scalar:
        return self._undefined

    def __init__(
        self,
        type: str | WeightedDefuzzifier.Type = Type.Automatic,"""),
    (D, _O9_DIV, """        if not fuzzy_output.terms:
            return self._empty()
""" + _O9_DIV)], "O9/WeightedAverage.defuzzify/fresh-result")
equivalent("c12-eq-defuzzifier-returns-kept-float", "C12", [
    (D, _O9_ANCHOR, """            return f"'{self.name}'"

    _undefined = nan

    def __init__(
        self,
        type: str | WeightedDefuzzifier.Type = Type.Automatic,"""),
    (D, _O9_DIV, """        if not fuzzy_output.terms:
            return self._undefined
""" + _O9_DIV)])

# ------------------------------------------------------------------------------------------ AG-sem: the fuzzy output's methods by interpretation
mutant("c10-group-reuses-activation", "C10", (T, """                groups[activated.term.name] = Activated(
                    activated.term, activated.degree, implication=None
                )""", """                groups[activated.term.name] = activated"""), "W-grp/Aggregated.grouped_terms/fresh")
mutant("c10-group-order-reversed", "C10", (T, "        for activated in self.terms:\n            if activated.term.name not in groups:", "        for activated in reversed(self.terms):\n            if activated.term.name not in groups:"), "W-grp/Aggregated.grouped_terms/order")
mutant("c10-activation-degree-absent-nan", ["C10", "C06"], (T, "        return activated.degree if activated else scalar(0.0)", "        return activated.degree if activated else scalar(nan)"), "P10/Aggregated.activation_degree/absent")
mutant("c09-membership-skips-first-term", ["C09", "C01"], (T, "        y = scalar(0.0)\n        for term in self.terms:\n            y = self.aggregation.compute", "        y = scalar(0.0)\n        for term in self.terms[1:]:\n            y = self.aggregation.compute"), "P7/Aggregated.membership/")
mutant("c19-membership-no-operator-unchecked", ["C19", "C09"], (T, "        if self.terms and not self.aggregation:\n            raise ValueError(\"expected an aggregation operator, but found none\")\n\n        y = scalar(0.0)", "        y = scalar(0.0)"), "P7/Aggregated.membership/no-operator")
